"""C01 — every spec-conforming response deserialises losslessly into ResponseData.

Bounded exhaustive exploration of (operation, payload vector) pairs: operations of the edit space
of DESIGN.md appendix A over the CORE schema, each really generated, compiled (rustc) and run
(serde_json) in the farm; payload vectors = full product or deviation bound 2 of the reference
executor's choice points. Oracle: deserialisation succeeds and the re-serialised value equals the
payload in the normal form of the property.
"""
import json

import gql
import kfpred
import space
from common import Report, pick_samples, log
from farm import Farm, Case
from genlib import gen_request, generate


def conditional_pack():
    """Operations whose fields (and, last three, fragments) carry `@skip` / `@include`: a conforming server
    leaves those keys out, depending on the variables - whatever the field's schema type says."""
    from gql import Field, Inline, Spread, FragDef, Op, Doc, TN
    S, I = [("skip", "s")], [("include", "t")]
    V = [("s", "Boolean!", None), ("t", "Boolean!", None)]
    lib = space.fragment_library()

    def q(sel, frags=()):
        return Doc(list(frags) + space.used_fragments(list(sel) + [x for f in frags for x in f.sel], lib) + [Op("query", "Op", sel, V)])
    P = []
    P.append(("non-null scalar / list of objects", q([Field("me", [Field("id"), Field("name", directives=S),
                                                                      Field("friends", [Field("name")], directives=I)])])))
    P.append(("ID, nullable ID, enum, ID list", q([Field("me", [Field("id", directives=S), Field("extId", directives=I), Field("role", directives=S),
                                                                   Field("aliases", directives=S), Field("active")])])))
    P.append(("inside variants", q([Field("node", [TN(), Field("id", directives=S),
                                                    Inline("User", [Field("name", directives=S), Field("age", directives=I)]),
                                                    Inline("Org", [Field("kind", directives=S), Field("memberIds", directives=I), Field("name")])])])))
    P.append(("root fields", q([Field("version", directives=S), Field("count", directives=I), Field("grid", directives=S), Field("ids", directives=I),
                                Field("me", [Field("id")], directives=S), Field("nodes", [TN(), Field("id")], directives=I)])))
    P.append(("inside a named fragment", q([Field("me", [Field("id"), Spread("CondU")])],
                                           [FragDef("CondU", "User", [Field("name", directives=S), Field("active", directives=I)])])))
    P.append(("list of unions", q([Field("things", [TN(), Inline("Cat", [Field("name", directives=S), Field("lives")]),
                                                     Inline("User", [Field("friends", [Field("name", directives=I)], directives=S)])])])))
    P.append(("aliases", q([Field("me", [Field("name", alias="n", directives=S), Field("active", alias="a", directives=I), Field("id")])])))
    P.append(("both directives on one field", q([Field("me", [Field("id"), Field("name", directives=S + I)])])))
    # literal conditions: the server then always / never sends the field, and the response type has to take what it sends
    P.append(("literal conditions", q([Field("me", [Field("id"), Field("name", directives=[("skip", "=true")]), Field("active", directives=[("include", "=true")]),
                                                     Field("age", directives=[("include", "=false")]), Field("role", directives=[("skip", "=false")])])])))
    P.append(("conditional spread", q([Field("me", [Field("id"), Spread("UserB", directives=I)])])))
    P.append(("conditional inline fragment in a variant position", q([Field("node", [TN(), Inline("User", [Field("name")], directives=S)])])))
    P.append(("conditional spread on a union", q([Field("thing", [TN(), Spread("CatF", directives=I)])])))
    return P


def prepare(tier, schema, farm_name, options=None, want_docs=None):
    """Generate + compile the operation space. Returns (farm, entries) where each entry is a dict
    with focus, labels, doc, query text, validity, generator status and farm case id."""
    entries = []
    for focus, labels, doc in (want_docs if want_docs is not None else space.operation_space(tier)):
        errs = gql.validate(schema, doc)
        entries.append({"focus": focus, "labels": labels, "doc": doc, "query": gql.render_doc(doc), "errs": errs, "schema": schema,
                        "schema_name": "CORE"})
    if want_docs is None:
        # second schema pack: the feature lattice of C07 (full set and every single construct) with its covering
        # operations - constructs CORE does not have (deeper nesting, deprecated enum values, argument defaults,
        # explicit root names, extensions, several custom scalars ...)
        from checks import c07
        sets = [tuple(c07.FEATURES)] + [(f,) for f in c07.FEATURES]
        if tier == "thorough":
            import itertools
            sets += list(itertools.combinations(c07.FEATURES, 2))
        for fs in sets:
            sch, docs = c07.build(fs)
            for dname, doc in docs:
                entries.append({"focus": "lattice " + "+".join(fs), "labels": [dname], "doc": doc, "query": gql.render_doc(doc),
                                "errs": gql.validate(sch, doc), "schema": sch, "schema_name": "lattice " + "+".join(fs)})
    if want_docs is None:
        for dname, doc in conditional_pack():
            entries.append({"focus": "conditional", "labels": [dname], "doc": doc, "query": gql.render_doc(doc),
                            "errs": gql.validate(schema, doc), "schema": schema, "schema_name": "CORE"})
    if want_docs is None and options is None:
        # the same operations under a second option set (the property is not conditional on options): Rust
        # normalization, other-variant, skip-none - for the lattice pack and every single-item operation
        from genlib import DEFAULT_OPTS
        alt = dict(DEFAULT_OPTS, normalization="rust", other_variant=True, skip_none=True)
        more = []
        for e in entries:
            if e["schema_name"] != "CORE" or len(e["labels"]) == 1:
                more.append(dict(e, opts=alt, focus=e["focus"] + " [normalization=rust, other-variant, skip-none]"))
        entries = entries + more
    reqs = [gen_request(e["schema"].sdl(), e["query"], e.get("opts", options)) for e in entries]
    resps = generate(reqs)
    farm = Farm(farm_name)
    for e, r in zip(entries, resps):
        e["gen"] = r["status"]
        e["gen_msg"] = r.get("msg")
        if r["status"] == "ok" and not e["errs"]:
            c = Case(r["tokens"], [("op", "Op")], prelude="pub type Date = String; pub type Zoned = String; pub type date_time = String; pub type DateTime = String; pub type _Any = String; pub type Any = String;")
            e["case"] = farm.add(c)
        else:
            e["case"] = None
    farm.build()
    for e in entries:
        if e["case"]:
            c = farm.cases[e["case"]]
            e["compiles"] = c.compiles
            e["compile_errors"] = c.errors
    return farm, entries


def run(tier):
    rep = Report("C01", "exploration", tier)
    schema = space.core_schema()
    farm, entries = prepare(tier, schema, "c01")
    judged = [e for e in entries if e["case"] and e["compiles"]]
    reqs, meta = [], []
    bounds = {"full_product": 0, "deviation_bound": 0, "deviation_bound_capped": 0}
    for e in judged:
        ex = gql.Executor(e["schema"], e["doc"])
        op = e["doc"].ops[0]
        vectors, bound = ex.payloads(op, full_cap=256, dev=2, dev_cap=3000 if tier == "quick" else 6000)
        bounds[bound["mode"]] += 1
        if bound.get("capped"):
            rep.caps.append({"op": e["query"][:80], "cap": bound})
        e["nvec"] = len(vectors)
        for choices, labels, payload in vectors:
            for what in ("resp", "resp_str"):
                arg = payload if what == "resp" else json.dumps(payload)
                reqs.append({"case": e["case"], "module": "op", "what": what, "arg": arg})
                meta.append((e, choices, payload, what))
    log(f"[C01] {len(entries)} operations, {len(judged)} judged, {len(reqs)} evaluations")
    resps = farm.run(reqs)
    nontrivial = set()
    outcomes = set()
    per_op_fail = {}
    suspects = []
    for (e, choices, payload, what), r, q in zip(meta, resps, reqs):
        case = {"schema": e["schema_name"], "query": e["query"], "payload": payload, "entry": what, "focus": e["focus"], "options": e.get("opts", "default"),
                "items": e["labels"]}
        if e["schema_name"] != "CORE":
            case["sdl"] = e["schema"].sdl()
        if r is None:
            continue
        sigs = e.get("sigs")
        if sigs is None:
            sigs = e["sigs"] = kfpred.c01_sigs(e["schema"], e["doc"])
        if r.get("crash") or r.get("panic"):
            rep.violation("crash", case, r, kfpred.sigs_at(sigs))
            continue
        ex = gql.Executor(e["schema"], e["doc"])
        op = e["doc"].ops[0]
        if not r["ok"]:
            outcomes.add("deser_err")
            key = (e["case"], "deser_err")
            if per_op_fail.get(key, 0) < 3:
                per_op_fail[key] = per_op_fail.get(key, 0) + 1
                rep.violation("deser_err", case, r["err"], kfpred.sigs_at(sigs))
                suspects.append((q, r))
            continue
        out, conflicts = gql.loads_keep_duplicates(r["out"])
        diffs = ex.compare(op, payload, out)
        if conflicts:
            diffs = [("/".join(["dup", c[0]]), "key serialised twice with %r and %r" % (c[1], c[2])) for c in conflicts] + diffs
        if diffs:
            outcomes.add("content_loss")
            key = (e["case"], "content_loss")
            if per_op_fail.get(key, 0) < 3:
                per_op_fail[key] = per_op_fail.get(key, 0) + 1
                rep.violation("content_loss", dict(case, output=r["out"]), diffs[:5],
                              kfpred.sigs_at(sigs, [d[0] for d in diffs]), groups=kfpred.sig_groups(sigs, [d[0] for d in diffs]))
                suspects.append((q, r))
        else:
            outcomes.add("ok")
            nontrivial.add(e["case"])
    farm.confirm(suspects[:400])
    invalid = [e for e in entries if e["errs"]]
    unsupported = [e for e in entries if not e["errs"] and e["gen"] != "ok"]
    notcompiling = [e for e in entries if e["case"] and not e["compiles"]]
    cov = {
        "evaluations": len(reqs),
        "distinct_nontrivial": len(nontrivial),
        "rule": "operations = ordered item sequences (quick: singles over full alphabets + pairs over core alphabets; "
                "thorough: pairs over full + triples over core) at 12 focus hosts over the CORE schema, de-duplicated "
                "by canonical document; non-trivial = distinct compiled operation modules for which at least one "
                "payload vector was accepted and compared equal in normal form; evaluations = (operation, payload "
                "vector, deserialiser entry point) executions of the compiled code",
        "operations_total": len(entries),
        "operations_invalid_by_reference_validator": len(invalid),
        "operations_unsupported_by_generator": len(unsupported),
        "operations_not_compiling(judged by C02)": len(notcompiling),
        "operations_judged": len(judged),
        "payload_bounds": bounds,
        "distinct_outcomes": sorted(outcomes),
        "exhaustive": False,
        "samples": pick_samples([{"query": e["query"], "vectors": e.get("nvec")} for e in judged], 6),
        "unsupported_samples": pick_samples([{"query": e["query"], "gen": e["gen"], "msg": e["gen_msg"]} for e in unsupported], 4),
    }
    return rep.finish(cov, ["custom scalar Date is a consumer alias to String", "no @skip/@include directives",
                            "payload scalar values limited to the boundary alphabets of DESIGN.md 3.3"])
