"""C02 — supported inputs are accepted and the generated code always type-checks.

Bounded exhaustive exploration with rustc as the observer, over the three delivery forms:
  lib    - token stream of the library pasted into a consumer crate (serde, serde_json, graphql_client):
           the whole bounded operation space, option sets incl. the wire-relevant ones, multi-operation
           documents, targeted families (variable defaults, list-of-ID, same type name by two paths);
  derive - the real #[derive(GraphQLQuery)] in crates whose ONLY dependency is graphql_client;
  cli    - files written by the real `graphql-client generate`, mounted as modules.
Oracle: generation succeeds, the output parses as Rust, rustc reports no error for the case.
"""
import itertools
import json
import os
import re
import shutil

import gql
import kfpred
import space
from gql import Field, Inline, Spread, FragDef, Op, Doc, TN
from common import Report, pick_samples, log, build_cli, run_process, parallel_map, WORK, base_env, scratch_file
from farm import Farm, DeriveFarm, Case
from genlib import gen_request, generate, DEFAULT_OPTS
from checks.c01 import prepare
from checks.c05 import camel


def type_name_collisions(schema, doc):
    """Reference side of finding 11: two different selection paths whose generated type names coincide."""
    names = {}
    frags = doc.frags

    def seg(s):
        return camel(s)

    def walk(parent, sel, prefix):
        for s in sel:
            if isinstance(s, Field) and s.sel and s.name != "__typename":
                fd = schema.field_def(parent, s.name)
                if fd is None:
                    continue
                n = prefix + seg(s.key)
                names.setdefault(n, []).append(prefix + "/" + s.key)
                walk(gql.named(fd.type), s.sel, n)
            elif isinstance(s, Inline) and s.on:
                walk(s.on, s.sel, prefix + "On" + seg(s.on))
    for d in doc.defs:
        if isinstance(d, FragDef):
            walk(d.on, d.sel, seg(d.name))
        else:
            rt = gql.root_type(schema, d)
            if rt:
                walk(rt, d.sel, seg(d.name))
    return {n: p for n, p in names.items() if len(set(p)) > 1}


def has_list_of_id(schema, doc):
    for parent, sel, _ in kfpred.selection_sets(schema, doc):
        for s in sel:
            if isinstance(s, Field) and s.name != "__typename":
                fd = schema.field_def(parent, s.name)
                if fd is not None and gql.named(fd.type) == "ID" and ("L",) == tuple(x for x in _shape(fd.type) if x == "L")[:1]:
                    return True
    return False


def _shape(t):
    out = []
    while t[0] != "N":
        out.append(t[0])
        t = t[1]
    return out


def feature_ops():
    """Feature-pack operations (richer than the k-bounded space) used for option sets and delivery forms."""
    lib = space.fragment_library()
    ops = []

    def mk(desc, kind, sel, vars_=()):
        ops.append((desc, Doc(space.used_fragments(sel, lib) + [Op(kind, "Op", sel, vars_)])))

    mk("query: enum, scalar, fragments, union, variables", "query",
       [Field("me", [Field("id"), Field("role"), Field("since"), Field("legacy"), Spread("UserB"),
                     Field("pet", [TN(), Inline("Cat", [Field("lives")]), Inline("Dog", [Field("good")])])]),
        Field("search", [TN(), Field("id"), Inline("Org", [Field("kind"), Field("owner", [Field("name")])])], args=[("filter", "$f"), ("first", "$first")])],
       [("f", "Filter", None), ("first", "Int", None)])
    mk("query: lists of unions and interfaces, recursive fragment", "query",
       [Field("things", [TN(), Spread("ThingF"), Inline("User", [Field("friends", [Field("since")])])]),
        Field("nodes", [TN(), Spread("NodeRec")]), Field("count")], [("p", "Pick", None)])
    mk("mutation with recursive fragment", "mutation",
       [Field("rename", [Spread("UserRec"), Field("role")], args=[("id", "$id"), ("name", "$name")]), Field("touch")],
       [("id", "ID!", None), ("name", "String!", None)])
    mk("query over types whose names are not CamelCase", "query",
       [Field("find", [TN(), Inline("http_error", [Field("code"), Field("order")]), Inline("User", [Field("name")])], args=[("input", "$i")])],
       [("i", "search_input", None), ("o", "sort_order", None)])
    mk("subscription on interface", "subscription",
       [Field("changed", [TN(), Field("id"), Inline("User", [Field("name"), Field("role")]), Inline("Bot", [Field("version")])])])
    return ops


def targeted_families(schema):
    lib = space.fragment_library()
    out = []
    # variable defaults, one kind per operation so that a failure names the kind
    for desc, var in [("Int default", ("first", "Int", "3")), ("String default", ("s", "String", '"d"')),
                      ("Boolean default", ("b", "Boolean", "true")), ("Float default", ("fl", "Float", "1.5")),
                      ("list default", ("l", "[Int!]", "[1, 2]")), ("enum default", ("r", "Role", "ADMIN")),
                      ("input object default", ("rg", "Range", "{from: 1}")),
                      ("nested input object default", ("f", "Filter", '{text: "x", range: {from: 1}}')),
                      ("non-null Int default", ("n", "Int!", "3")), ("ID default", ("id", "ID", '"x"')),
                      # list defaults at every nullability of list and elements, nested lists, custom scalars, an empty list
                      ("list-of-nullable default", ("ln", "[Int]", "[1, 2]")), ("non-null-list-of-nullable default", ("lnn", "[String]!", '["a"]')),
                      ("nested-list default", ("ll", "[[Int!]]", "[[1], [2, 3]]")), ("nested-nullable-list default", ("lln", "[[ID]!]!", '[["x"]]')),
                      ("custom-scalar-list default", ("ld", "[Date]", '["2020-01-01"]')), ("empty-list default", ("le", "[Boolean!]!", "[]"))]:
        out.append(("variable default: " + desc, Doc([Op("query", "Op", [Field("version")], [var])]), {"variable_default:" + desc.split()[0]}))
    sel = [Field("user", [Field("friend", [TN(), Field("id")])], args=[("id", '"1"')]), Field("userFriend", [Field("name")])]
    out.append(("same type name by two paths", Doc([Op("query", "Op", sel)]), None))
    ua = FragDef("UA", "User", [Field("id"), Field("friend", [TN(), Spread("NA")])])
    na = FragDef("NA", "Node", [TN(), Field("id"), Inline("User", [Spread("UA")])])
    out.append(("mutually recursive fragments", Doc([ua, na, Op("query", "Op", [Field("me", [Spread("UA")])])]), None))
    # the same type condition at several places of one operation, each place the FIRST to use some enum / custom scalar /
    # fragment (every type a module mentions has to be defined, wherever it is first met)
    sel = [Field("node", [TN(), Inline("User", [Field("name")])]),
           Field("nodes", [TN(), Inline("User", [Field("role"), Field("since"), Spread("UserB")]), Inline("Org", [Field("kind")])]),
           Field("things", [TN(), Inline("User", [Field("createdAt"), Field("pet", [TN(), Inline("Cat", [Field("lives")])])]), Inline("Org", [Field("kindOf")])])]
    out.append(("repeated type conditions, later ones introduce new types", Doc(space.used_fragments(sel, lib) + [Op("query", "Op", sel)]), None))
    sel = [Field("me", [Field("id")]), Field("things", [TN(), Inline("User", [Field("role"), Field("since")])]),
           Field("outcomes", [TN(), Inline("http_error", [Field("order"), Field("stamp")]), Inline("User", [Field("roles")])])]
    out.append(("object field first, then the same type as a type condition", Doc([Op("query", "Op", sel)]), None))
    # the same response key selected twice in one selection set (legal: the selections merge)
    out.append(("same field twice in one selection set", Doc([Op("query", "Op", [Field("me", [Field("name"), Field("id"), Field("name")])])]),
                {"same_response_key_twice_in_one_selection_set"}))
    # multi-operation documents (no operation selected => one module each, compiled together)
    sel_a = [Field("me", [Spread("UserA"), Field("role")])]
    sel_b = [Field("rename", [Spread("UserA")], args=[("id", "$id"), ("name", '"n"')])]
    sel_c = [Field("userChanged", [Spread("UserB"), Field("role")])]
    frs = space.used_fragments(sel_a + sel_c, lib)
    out.append(("three operations sharing fragments", Doc(frs + [Op("query", "First", sel_a), Op("mutation", "SecondOp", sel_b, [("id", "ID!", None)]),
                                                                 Op("subscription", "Third", sel_c)]), None))
    out.append(("two queries, fragments after operations", Doc([Op("query", "AOp", sel_a), Op("query", "BOp", [Field("count")])] + frs), None))
    return out


def derive_source(schema_rel, query_rel, attrs=""):
    return ('#![allow(warnings)]\npub type Date = String; pub type date_time = String; pub type DateTime = String;\n#[derive(graphql_client::GraphQLQuery)]\n'
            '#[graphql(schema_path = "%s", query_path = "%s"%s)]\npub struct Op;\n' % (schema_rel, query_rel, attrs))


def run(tier):
    rep = Report("C02", "exploration", tier)
    schema = space.core_schema()
    sdl = schema.sdl()
    # ---------------------------------------------------------------- A. lib form, whole operation space (shares C01's farm)
    farm, entries = prepare(tier, schema, "c01")
    lib_judged = 0
    nontrivial = set()
    for e in entries:
        if e["errs"]:
            continue
        lib_judged += 1
        label = {"form": "lib", "query": e["query"], "focus": e["focus"], "items": e["labels"]}
        sigs = set()
        if type_name_collisions(e["schema"], e["doc"]):
            sigs.add("two_paths_same_generated_type_name")
        if kfpred.duplicate_response_keys(e["doc"]):
            sigs.add("same_response_key_twice_in_one_selection_set")
        if e["gen"] != "ok":
            rep.violation("supported_operation_rejected", label, e["gen_msg"] or e["gen"], sigs)
        elif not e["compiles"]:
            rep.violation("does_not_compile", label, [(x["code"], x["message"][:150]) for x in e["compile_errors"][:2]], sigs)
        else:
            nontrivial.add(e["query"])
    # ---------------------------------------------------------------- B. lib form: option sets, targeted families
    fops = feature_ops()
    extra = []
    for (desc, doc), dep, ov, sk, norm in itertools.product(fops, [None, "allow", "warn", "deny"], [False, True], [False, True], ["none", "rust"]):
        if tier == "quick" and (dep, ov, sk, norm).count(None) + [ov, sk].count(False) + (norm == "none") < 2:
            continue  # quick: at most two deviations from the default
        opts = dict(DEFAULT_OPTS, other_variant=ov, skip_none=sk, normalization=norm)
        if dep:
            opts["deprecation"] = dep
        extra.append({"desc": desc, "doc": doc, "opts": opts, "mods": [("op", "Op")], "sigs": set()})
    for desc, doc, sigs in targeted_families(schema):
        mods = [(re.sub(r"(?<!^)(?=[A-Z])", "_", o.name).lower(), o.name) for o in doc.ops]
        s = set(sigs or ())
        if type_name_collisions(schema, doc):
            s.add("two_paths_same_generated_type_name")
        extra.append({"desc": desc, "doc": doc, "opts": dict(DEFAULT_OPTS), "mods": mods, "sigs": s})
    ids_schema = gql.Schema([gql.obj("T", [("ids", "[ID!]!"), ("maybe", "[ID]"), ("s", "String")]), gql.obj("Q", [("t", "T")])], {"query": "Q"})
    extra.append({"desc": "list of ID", "doc": Doc([Op("query", "Op", [Field("t", [Field("ids"), Field("s")])])]), "opts": dict(DEFAULT_OPTS),
                  "mods": [("op", "Op")], "sigs": {"id_field_with_list_qualifier"}, "sdl": ids_schema.sdl()})
    resps = generate([gen_request(x.get("sdl", sdl), gql.render_doc(x["doc"]), x["opts"], parse=True) for x in extra])
    farm_b = Farm("c02b")
    for x, r in zip(extra, resps):
        x["label"] = {"form": "lib", "what": x["desc"], "options": {k: v for k, v in x["opts"].items() if k not in ("mode",)}, "query": gql.render_doc(x["doc"])}
        if r["status"] != "ok":
            rep.violation("supported_operation_rejected", x["label"], r.get("msg") or r["status"], x["sigs"])
            x["case"] = None
            continue
        if r.get("parse_error"):
            rep.violation("output_is_not_rust", x["label"], r["parse_error"], x["sigs"])
        x["case"] = farm_b.add(Case(r["tokens"], x["mods"], prelude="pub type Date = String; pub type date_time = String; pub type DateTime = String;"))
    farm_b.build()
    for x in extra:
        if x["case"]:
            fc = farm_b.cases[x["case"]]
            if not fc.compiles:
                rep.violation("does_not_compile", x["label"], [(e["code"], e["message"][:200]) for e in fc.errors[:3]], x["sigs"])
            else:
                nontrivial.add(json.dumps(x["label"], sort_keys=True))
    # ---------------------------------------------------------------- C. derive form in a serde-less crate
    subset = []
    seen_foci = {}
    for e in entries:
        if e["errs"] or e["gen"] != "ok" or e["schema_name"] != "CORE":
            continue
        n = len(e["labels"])
        if n == 1 or tier == "thorough" or (n == 2 and seen_foci.get((e["focus"], e["labels"][0]), 0) < 1):
            seen_foci[(e["focus"], e["labels"][0])] = seen_foci.get((e["focus"], e["labels"][0]), 0) + 1
            subset.append(("space " + e["focus"] + " " + "+".join(e["labels"]), e["doc"], ""))
    for desc, doc in fops:
        subset.append(("feature: " + desc, doc, ""))
        subset.append(("feature+options: " + desc, doc, ', response_derives = "Debug,Clone,PartialEq", variables_derives = "Debug", normalization = "rust", '
                       'fragments_other_variant = "true", skip_serializing_none, deprecated = "allow"'))
        subset.append(("feature+scalars module: " + desc, doc, ', custom_scalars_module = "crate::scalars"'))
    dfarm = DeriveFarm("c02d")
    srel = dfarm.add_file(sdl, "graphql")
    dcases = []
    for desc, doc, attrs in subset:
        qrel = dfarm.add_file(gql.render_doc(doc), "graphql")
        c = Case(derive_source(srel, qrel, attrs), [])
        dcases.append((desc, doc, attrs, dfarm.add(c)))
    dfarm.build()
    for desc, doc, attrs, cid in dcases:
        fc = dfarm.cases[cid]
        label = {"form": "derive in a crate whose only dependency is graphql_client", "what": desc, "attributes": attrs, "query": gql.render_doc(doc)}
        if not fc.compiles:
            sigs = set()
            if any(schema.is_abstract(p) for p, _, _ in kfpred.selection_sets(schema, doc)) or any(v[1].strip("[]!") == "Pick" for o in doc.ops for v in o.vars):
                sigs.add("serde_less_consumer_and_module_has_tagged_or_oneof_enum")
            if type_name_collisions(schema, doc):
                sigs.add("two_paths_same_generated_type_name")
            if kfpred.duplicate_response_keys(doc):
                sigs.add("same_response_key_twice_in_one_selection_set")
            rep.violation("derive_does_not_compile", label, [(e["code"], e["message"][:200]) for e in fc.errors[:3]], sigs)
        else:
            nontrivial.add(json.dumps(label, sort_keys=True))
    # ---------------------------------------------------------------- D. files written by the real CLI
    cli = build_cli()
    cdir = os.path.join(WORK, "c02cli")
    shutil.rmtree(cdir, ignore_errors=True)
    os.makedirs(cdir)
    spath = os.path.join(cdir, "schema.graphql")
    with open(spath, "w") as f:
        f.write(sdl)
    cli_cases = []
    for i, (desc, doc, attrs) in enumerate(subset):
        if attrs:
            continue
        d = os.path.join(cdir, "c%04d" % i)
        os.makedirs(d)
        with open(os.path.join(d, "op.graphql"), "w") as f:
            f.write(gql.render_doc(doc))
        cli_cases.append({"desc": desc, "doc": doc, "dir": d})

    def run_cli(c):
        rc, out, err = run_process([cli, "generate", "--schema-path", spath, os.path.join(c["dir"], "op.graphql"), "--no-formatting",
                                    "--custom-scalars-module", "crate::scalars", "--response-derives", "Serialize", "--variables-derives", "Deserialize"],
                                   timeout=60)
        return rc, err
    cres = parallel_map(run_cli, cli_cases)
    farm_c = Farm("c02c")
    for c, (rc, err) in zip(cli_cases, cres):
        c["label"] = {"form": "file written by graphql-client generate", "what": c["desc"], "query": gql.render_doc(c["doc"])}
        outp = os.path.join(c["dir"], "op.rs")
        if rc != 0 or not os.path.exists(outp):
            rep.violation("cli_generation_failed", c["label"], (err or "")[-300:])
            c["case"] = None
            continue
        with open(outp) as f:
            text = f.read()
        # mount the file's content as its own module file: the header `#![allow(..)]` must stay the first line
        src = "#[path = \"%s\"]\npub mod generated;\npub use generated::*;\n" % outp
        c["case"] = farm_c.add(Case(src + "// " + str(hash(text)) + "\n", [("op", "Op")], resp=True, vars_=True), mounts=[outp])
    farm_c.build()
    for c in cli_cases:
        if c.get("case"):
            fc = farm_c.cases[c["case"]]
            if not fc.compiles:
                sigs = {"two_paths_same_generated_type_name"} if type_name_collisions(schema, c["doc"]) else set()
                if kfpred.duplicate_response_keys(c["doc"]):
                    sigs.add("same_response_key_twice_in_one_selection_set")
                rep.violation("cli_file_does_not_compile", c["label"], [(e["code"], e["message"][:200]) for e in fc.errors[:3]], sigs)
            else:
                nontrivial.add(json.dumps(c["label"], sort_keys=True))
    total = lib_judged + len(extra) + len(dcases) + len(cli_cases)
    cov = {
        "evaluations": total, "distinct_nontrivial": len(nontrivial),
        "rule": "lib: every operation of the bounded operation space the reference validator accepts (compile verdicts shared "
                "with C01's farm) + 4 feature operations x {deprecation unset/allow/warn/deny} x other-variant x skip-none x "
                "normalization (quick: <= 2 deviations) + targeted families (10 variable-default kinds, same type name by two "
                "paths, multi-operation documents, list of ID); derive: singles of every focus, one pair per (focus, first item) "
                "and the feature operations with / without options, compiled by `cargo check` in crates depending on "
                "graphql_client only; cli: the same operations written by the real binary and mounted as modules. non-trivial = "
                "distinct cases that were generated and type-checked",
        "lib_operations": lib_judged, "lib_option_and_family_cases": len(extra), "derive_cases": len(dcases), "cli_cases": len(cli_cases),
        "exhaustive": False,
        "samples": pick_samples([x["label"] for x in extra], 4) + pick_samples([{"form": "derive", "what": d[0]} for d in dcases], 3),
    }
    return rep.finish(cov, ["the supported subset is defined by the case generator: documents valid for the reference validator, names "
                            "distinct after snake/camel conversion, no `__` names; consumer crates supply what the README asks for "
                            "(custom scalar aliases)"])
