"""C03 — generated response types reject what the schema forbids.

On compiled generated code (farm): every single-point corruption of one conforming payload per
runtime-type choice - null or missing key at a non-null position, non-list where a list is
required, wrong scalar kind, unknown or swapped `__typename` - for every operation of the bounded
operation space, with fragments_other_variant off and on.
"""
import copy
import json

import gql
import kfpred
import space
from gql import Doc, Op, Spread, Inline, Field, TN
from common import Report, pick_samples, log
from farm import Farm, Case
from genlib import gen_request, generate, DEFAULT_OPTS

WRONG_KIND = {
    "Int": ["s", True, 1.5, [], {}],
    "Float": ["s", True, [], {}],
    "String": [1, True, [], {}],
    "Boolean": [0, "true", [], {}],
    "ID": [1.5, True, [], {}],
    "ENUM": [1, True, [], {}],
    "CUSTOM": [1, True, [], {}],
}


def corruptions(ex, op, payload, enum_near_misses=False):
    """Yield (kind, response path, corrupted payload, expectation) for every single-point corruption.
    expectation: 'reject' | ('unknown_typename',) | ('swapped_typename', new name)."""
    schema = ex.schema
    out = []
    env0 = {v: False for v in gql.directive_variables(ex.doc)}

    def edit(path_keys, fn):
        p = copy.deepcopy(payload)
        cur = p
        for k in path_keys[:-1]:
            cur = cur[k]
        fn(cur, path_keys[-1])
        return p

    def walk_obj(val, static_type, sel, keys, rpath):
        rt = static_type if schema.kind(static_type) == "OBJECT" else val.get("__typename")
        parents = {}
        # (the payload that is corrupted is the default vector: every directive variable false)
        fields = gql.collect_fields(schema, ex.frags, rt, sel, parents=parents, static_type=static_type, env=env0)
        abstract = schema.kind(static_type) != "OBJECT"
        if abstract and "__typename" in val:
            out.append(("typename_unknown", rpath, edit(keys + ["__typename"], lambda c, k: c.__setitem__(k, "NoSuchType")), ("unknown_typename",)))
            out.append(("typename_deleted", rpath, edit(keys + ["__typename"], lambda c, k: c.pop(k)), "reject"))
            out.append(("typename_null", rpath, edit(keys + ["__typename"], lambda c, k: c.__setitem__(k, None)), "reject"))
            out.append(("typename_number", rpath, edit(keys + ["__typename"], lambda c, k: c.__setitem__(k, 7)), "reject"))
            for other in schema.possible_types(static_type):
                if other != rt:
                    out.append(("typename_swapped", rpath, edit(keys + ["__typename"], lambda c, k, o=other: c.__setitem__(k, o)),
                                ("swapped_typename", other)))
        for key, nodes in fields.items():
            if nodes[0].name == "__typename":
                continue
            # the declared type of the position is the one of the type the field was selected ON (an interface
            # may declare `label: String` while the runtime object refines it to `String!`)
            fd = schema.field_def(parents.get(id(nodes[0])) or rt, nodes[0].name) or schema.field_def(rt, nodes[0].name)
            t = fd.type
            if t[0] == "NN" and all(n.directives for n in nodes):
                t = t[1]   # a field the server may leave out (@skip / @include) is not a non-null position of the response
            walk_val(val.get(key), t, gql.merged_subselection(nodes), keys + [key], rpath + "/" + key, in_list=False)

    def walk_val(v, t, sel, keys, rpath, in_list):
        nonnull = t[0] == "NN"
        inner = t[1] if nonnull else t
        if nonnull:
            out.append(("null_at_non_null", rpath, edit(keys, lambda c, k: c.__setitem__(k, None)), "reject"))
            if not in_list:
                out.append(("missing_at_non_null", rpath, edit(keys, lambda c, k: c.pop(k)), "reject"))
        if v is None:
            return
        if inner[0] == "L":
            for bad in ({"x": 1}, "s", 3):
                out.append(("non_list_for_list", rpath, edit(keys, lambda c, k, b=bad: c.__setitem__(k, b)), "reject"))
            for i, x in enumerate(v):
                walk_val(x, inner[1], sel, keys + [i], "%s[%d]" % (rpath, i), in_list=True)
            return
        tn = inner[1]
        if schema.is_composite(tn):
            for bad in (3, "s"):
                out.append(("non_object_for_object", rpath, edit(keys, lambda c, k, b=bad: c.__setitem__(k, b)), "reject"))
            walk_obj(v, tn, sel, keys, rpath)
            return
        if enum_near_misses and schema.kind(tn) == "ENUM" and isinstance(v, str):
            # strings that are NOT values of the enum but look like one (other letter case, the value's Rust-style
            # spelling): accepted into the catch-all and given back unchanged - under every option set alike (C09)
            near = []
            for val in [x[0] if isinstance(x, (tuple, list)) else x for x in schema.types[tn].values]:
                for cand in (val.lower(), val.upper(), val.swapcase(), val.capitalize(), "".join(w[:1].upper() + w[1:].lower() for w in val.split("_"))):
                    if cand not in near:
                        near.append(cand)
            known = set(x[0] if isinstance(x, (tuple, list)) else x for x in schema.types[tn].values)
            for cand in near:
                if cand not in known:
                    out.append(("enum_near_miss", rpath, edit(keys, lambda c, kk, b=cand: c.__setitem__(kk, b)), "other"))
        k = tn if tn in WRONG_KIND else ("ENUM" if schema.kind(tn) == "ENUM" else "CUSTOM")
        for bad in WRONG_KIND[k]:
            out.append(("wrong_scalar_kind", rpath, edit(keys, lambda c, kk, b=bad: c.__setitem__(kk, b)), "reject"))

    rt = gql.root_type(schema, op)
    walk_obj(payload, rt, op.sel, [], op.name)
    return out


def typename_at(out, rpath, opname):
    """__typename found in the re-serialised output at a response path like Op/node or Op/nodes[0]."""
    import re
    cur = out
    for seg in rpath.split("/")[1:]:
        m = re.match(r"^(.*?)((?:\[\d+\])*)$", seg)
        cur = cur.get(m.group(1)) if isinstance(cur, dict) else None
        for idx in re.findall(r"\[(\d+)\]", m.group(2)):
            cur = cur[int(idx)] if isinstance(cur, list) and int(idx) < len(cur) else None
        if cur is None:
            return None
    return cur.get("__typename") if isinstance(cur, dict) else None


def has_abstract_position(schema, doc):
    return any(schema.is_abstract(parent) for parent, _, _ in kfpred.selection_sets(schema, doc))


def run(tier):
    rep = Report("C03", "exploration", tier)
    schema = space.core_schema()
    sdl = schema.sdl()
    entries = []
    for focus, labels, doc in space.operation_space(tier):
        if gql.validate(schema, doc):
            continue
        entries.append({"focus": focus, "labels": labels, "doc": doc, "query": gql.render_doc(doc), "ov": False, "schema": schema, "schema_name": "CORE"})
    # fragments that carry @skip: when the server does send their fields, those are as precise as anywhere else
    lib = space.fragment_library()
    S = [("skip", "s")]
    for name, sel in (("conditional spread on an object", [Field("me", [Field("id"), Spread("UserB", directives=S)])]),
                      ("conditional spread as a variant", [Field("thing", [TN(), Spread("CatF", directives=S), Inline("User", [Field("name")])])]),
                      ("conditional spread, sole selection", [Field("me", [Spread("UserA", directives=S)])]),
                      ("conditional inline fragment", [Field("node", [TN(), Field("id"), Inline("Org", [Field("kind"), Field("memberIds")], directives=S)])])):
        doc = Doc(space.used_fragments(sel, lib) + [Op("query", "Op", sel, [("s", "Boolean!", None)])])
        entries.append({"focus": "conditional fragment", "labels": [name], "doc": doc, "query": gql.render_doc(doc), "ov": False, "schema": schema, "schema_name": "CORE"})
    from checks import c07
    lattice = []
    for fs in [tuple(c07.FEATURES)] + [(f,) for f in c07.FEATURES]:
        sch, docs = c07.build(fs)
        for dname, doc in docs:
            if not gql.validate(sch, doc):
                lattice.append({"focus": "lattice " + "+".join(fs), "labels": [dname], "doc": doc, "query": gql.render_doc(doc), "ov": False,
                                "schema": sch, "schema_name": "lattice " + "+".join(fs)})
    ov = [dict(e, ov=True) for e in entries + lattice if has_abstract_position(e["schema"], e["doc"])]
    if tier == "quick":
        ov = [e for i, e in enumerate(ov) if i % 2 == 0]
        entries = [e for i, e in enumerate(entries) if i % 2 == 0 or has_abstract_position(schema, e["doc"]) or e["focus"] == "conditional fragment"]
    # precision is not conditional on the Rust-side options either: single-item operations and the lattice once more
    # under rust normalization + skip-none (+ other-variant as chosen above)
    rn = [dict(e, opts={"normalization": "rust", "skip_none": True}) for e in entries + lattice + ov if len(e["labels"]) == 1]
    if tier == "quick":
        rn = [e for i, e in enumerate(rn) if i % 2 == 0]
    entries = entries + lattice + ov + rn
    resps = generate([gen_request(e["schema"].sdl(), e["query"], dict(DEFAULT_OPTS, other_variant=e["ov"], **e.get("opts", {}))) for e in entries])
    farm = Farm("c03")
    for e, r in zip(entries, resps):
        e["case"] = farm.add(Case(r["tokens"], [("op", "Op")], prelude="pub type Date = String; pub type Zoned = String; pub type date_time = String; pub type DateTime = String; pub type _Any = String; pub type Any = String;")) if r["status"] == "ok" else None
    farm.build()
    reqs, meta = [], []
    conforming_of = {}
    for e in entries:
        if not e["case"] or not farm.cases[e["case"]].compiles:
            continue
        ex = gql.Executor(e["schema"], e["doc"])
        op = e["doc"].ops[0]
        e["sigs"] = kfpred.c01_sigs(e["schema"], e["doc"])
        # one conforming vector per runtime-type choice: the default vector and every single deviation at an '@' point
        vectors = []
        for choices, labels, payload in gql.explore_choices(lambda ch: ex.build_payload(op, ch), 1, 400):
            devs = [labels[i] for i, c in enumerate(choices) if c != 0]
            if not devs or devs[0].endswith("@"):
                vectors.append(payload)
        e["nvec"] = len(vectors)
        for payload in vectors:
            reqs.append({"case": e["case"], "module": "op", "what": "resp", "arg": payload})
            meta.append((e, "conforming", None, payload, None))
            for kind, rpath, bad, expect in corruptions(ex, op, payload):
                reqs.append({"case": e["case"], "module": "op", "what": "resp", "arg": bad})
                meta.append((e, kind, rpath, bad, expect))
                conforming_of[id(bad)] = payload
    log(f"[C03] {len(entries)} modules ({len(ov)} with other-variant), {len(reqs)} evaluations")
    resps = farm.run(reqs)
    distinct = set()
    outcomes = {}
    base_ok = {}
    per = {}
    samples = []
    suspects = []
    for (e, kind, rpath, payload, expect), r, q in zip(meta, resps, reqs):
        if r is None:
            continue
        ok = bool(r.get("ok"))
        if kind == "conforming":
            base_ok[(e["case"], json.dumps(payload, sort_keys=True))] = ok
            continue
        if not base_ok.get((e["case"], json.dumps(conforming_of[id(payload)], sort_keys=True)), True):
            # the conforming vector itself is rejected by this module (C01's business): its corruptions say nothing
            outcomes[("unjudged", "conforming_base_rejected")] = outcomes.get(("unjudged", "conforming_base_rejected"), 0) + 1
            continue
        outcomes[(kind, "accepted" if ok else "rejected")] = outcomes.get((kind, "accepted" if ok else "rejected"), 0) + 1
        distinct.add((e["query"], e["ov"], kfpred.strip_indices(rpath), kind))
        label = {"schema": e["schema_name"], "query": e["query"], "other_variant": e["ov"], "options": e.get("opts", "default"), "corruption": kind, "at": rpath, "payload": payload}
        sigs = kfpred.sigs_at(e["sigs"], [rpath])
        key = (e["case"], kind)
        problem = None
        if expect == "reject":
            if e["ov"] and kind in ("typename_null", "typename_number"):
                # with the other-variant option every unrecognised tag value yields `Unknown`; the property
                # demands rejection of unknown tags only when the option is off
                continue
            if ok:
                problem = ("forbidden_payload_accepted", r.get("out"))
        elif expect[0] == "unknown_typename":
            if e["ov"]:
                if not ok:
                    problem = ("unknown_typename_rejected_with_other_variant", r.get("err"))
                else:
                    tn = typename_at(json.loads(r["out"]), rpath, "Op")
                    if tn != "Unknown":
                        problem = ("unknown_typename_not_Unknown", r.get("out"))
            elif ok:
                problem = ("unknown_typename_accepted", r.get("out"))
        elif expect[0] == "swapped_typename":
            if ok:
                tn = typename_at(json.loads(r["out"]), rpath, "Op")
                if tn != expect[1]:
                    problem = ("swapped_typename_selected_other_variant", {"expected_variant": expect[1], "out": r.get("out")})
        if problem:
            per[key] = per.get(key, 0) + 1
            if per[key] <= 2:
                rep.violation(problem[0], label, problem[1], sigs)
                suspects.append((q, r))
        elif len(samples) < 4000:
            samples.append({"query": e["query"][:200], "corruption": kind, "at": rpath, "verdict": "rejected" if not ok else "accepted"})
    farm.confirm(suspects[:400])
    cov = {
        "evaluations": len(reqs), "distinct_nontrivial": len(distinct),
        "rule": "per compiled operation module (other-variant off, and on for operations with an abstract position) one "
                "conforming vector per runtime-type choice; every single-point corruption of it: null / missing at each non-null "
                "position, non-list at each list position, each wrong JSON kind at each scalar position, non-object at each "
                "object position, __typename unknown / deleted / null / number / swapped to each other possible type at each "
                "abstract position. distinct = (operation, other-variant, response path without indices, corruption kind)",
        "modules": len(entries), "modules_with_other_variant": len(ov),
        "distinct_outcomes": {"%s/%s" % k: v for k, v in sorted(outcomes.items())}, "exhaustive": False,
        "samples": pick_samples(samples, 8),
    }
    return rep.finish(cov, ["not demanded: rejection of extra keys, of an integer at a Float position, of a missing key at a nullable "
                            "position, of an array in place of an object (serde structs accept sequences)",
                            "quick tier: every second concrete-only operation is skipped; all operations with an abstract position are kept"])
