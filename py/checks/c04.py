"""C04 — variables serialise to exactly the operation's declared variables, validly typed.

On compiled generated code: operations declaring variables of every input type expression (10
named types x every modifier placement up to list depth 2, thorough 3), special variable names,
x skip_serializing_none {off, on} x normalization {none, rust}; every variable assignment within
the deviation bound is deserialised into the generated `Variables` (expressibility) and serialised
through `build_query`; the output must equal the reference Variables model.
"""
import json

import gql
import space
from gql import Field, Op, Doc
from common import Report, pick_samples, log
from farm import Farm, Case
from genlib import gen_request, generate, DEFAULT_OPTS

NAMED = ["Int", "Float", "String", "Boolean", "ID", "Date", "Role", "Range", "Filter", "Pick", "search_input", "Solo"]
LEAVES = {
    "Int": [1, 0, -2147483648, 2147483647], "Float": [1.5, 0.0, -1e300], "String": ["s", "", "é\"\n"],
    "Boolean": [True, False], "ID": ["x", "", "007"], "Date": ["2020-01-01"], "date_time": ["t"],
}


class InputModel:
    def __init__(self, schema, max_depth=2):
        self.schema = schema
        self.max_depth = max_depth

    def value(self, t, ch, path, depth=0):
        if t[0] == "NN":
            return self.nonnull(t[1], ch, path, depth)
        if ch(2, path + "?") == 1:
            return None
        return self.nonnull(t, ch, path, depth)

    def nonnull(self, t, ch, path, depth):
        if t[0] == "L":
            n = [1, 0, 2][ch(3, path + "#")]
            return [self.value(t[1], ch, "%s[%d]" % (path, i), depth) for i in range(n)]
        tn = t[1]
        k = self.schema.kind(tn)
        if tn in LEAVES:
            vals = LEAVES[tn]
            return vals[ch(len(vals), path + "=")]
        if k == "ENUM":
            vals = [v for v, _ in self.schema.types[tn].values]
            return vals[ch(len(vals), path + "=")]
        td = self.schema.types[tn]
        if td.one_of:
            members = td.fields
            m = members[ch(len(members), path + "|")]
            return {m.name: self.nonnull(m.type[1] if m.type[0] == "NN" else m.type, ch, path + "/" + m.name, depth + 1)}
        out = {}
        for f in td.fields:
            ft = f.type
            if depth >= self.max_depth and self.schema.kind(gql.named(ft)) == "INPUT_OBJECT" and gql.named(ft) in ("Filter",):
                # recursion has to end: nullable -> None, list -> []
                out[f.name] = None if ft[0] != "NN" else []
                continue
            out[f.name] = self.value(ft, ch, path + "/" + f.name, depth + 1)
        return out

    def expected(self, v, t, skip_none, struct_level=True):
        """What serialisation must give for the assignment v of type t (the caller drops the key when this
        returns DROP)."""
        if v is None:
            return DROP if (skip_none and struct_level) else None
        inner = t[1] if t[0] == "NN" else t
        if inner[0] == "L":
            return [self.expected(x, inner[1], skip_none, struct_level=False) for x in v]
        tn = inner[1]
        if self.schema.kind(tn) != "INPUT_OBJECT":
            return v
        td = self.schema.types[tn]
        if td.one_of:
            (k, val), = v.items()
            f = td.field(k)
            return {k: self.expected(val, ("NN", f.type) if f.type[0] != "NN" else f.type, skip_none, struct_level=False)}
        out = {}
        for f in td.fields:
            e = self.expected(v.get(f.name), f.type, skip_none, struct_level=True)
            if e is not DROP:
                out[f.name] = e
        return out


DBG_GLUE = '''        ("op", "vars_dbg") => { let v: op::Variables = serde_json::from_value(arg).map_err(|e| e.to_string())?; Ok(format!("{:?}", v)) }
'''


def forbidden_variants(model, vars_, assignment):
    """Assignments that are INVALID for the declared types: null / missing key at every non-null position reachable in
    `assignment`, a null / second / no member in every @oneOf value. Yields (description, path, variant)."""
    import copy
    schema = model.schema

    def positions(t, v, path):
        nn = t[0] == "NN"
        inner = t[1] if nn else t
        if nn:
            yield ("non_null", path)
        if v is None:
            return
        if inner[0] == "L":
            for i, x in enumerate(v):
                yield from positions(inner[1], x, path + [i])
            return
        tn = inner[1]
        if schema.kind(tn) != "INPUT_OBJECT":
            return
        td = schema.types[tn]
        if td.one_of:
            yield ("one_of", path)
            return
        for f in td.fields:
            if f.name in v:
                yield from positions(f.type, v[f.name], path + [f.name])

    def put(root, path, value, delete=False):
        """Copy of `root` with the position changed; only the containers along the path are copied (the rest is shared)."""
        def rec(node, i):
            k = path[i]
            c = dict(node) if isinstance(node, dict) else list(node)
            if i == len(path) - 1:
                if delete:
                    del c[k]
                else:
                    c[k] = value
            else:
                c[k] = rec(node[k], i + 1)
            return c
        return rec(root, 0)

    def get(root, path):
        cur = root
        for k in path:
            cur = cur[k]
        return cur

    for n, t in vars_:
        for kind, path in positions(t, assignment.get(n), [n]):
            if kind == "non_null":
                yield ("null at a non-null position", path, put(assignment, path, None))
                if isinstance(path[-1], str):
                    yield ("key deleted at a non-null position", path, put(assignment, path, None, delete=True))
            else:
                v = get(assignment, path)
                (k, val), = v.items()
                td = None
                yield ("@oneOf member null", path, put(assignment, path, {k: None}))
                yield ("@oneOf without a member", path, put(assignment, path, {}))
                other = next((f for f in _oneof_fields(model, vars_, assignment, path) if f != k), None)
                if other is not None:
                    yield ("@oneOf with two members", path, put(assignment, path, {k: val, other: val}))


def _oneof_fields(model, vars_, assignment, path):
    """Member names of the @oneOf type at `path` (walks the declared types along the path)."""
    schema = model.schema
    t = dict(vars_)[path[0]]
    for k in path[1:]:
        inner = t[1] if t[0] == "NN" else t
        if isinstance(k, int):
            t = inner[1]
        else:
            t = schema.types[inner[1]].field(k).type
    inner = t[1] if t[0] == "NN" else t
    while inner[0] == "L":
        inner = inner[1]
        inner = inner[1] if inner[0] == "NN" else inner
    return [f.name for f in schema.types[inner[1]].fields]


class _Drop:
    pass


DROP = _Drop()


def same(a, b):
    if isinstance(a, bool) or isinstance(b, bool):
        return a is b
    if isinstance(a, (int, float)) and isinstance(b, (int, float)):
        return a == b
    if type(a) is not type(b):
        return False
    if isinstance(a, dict):
        return list(sorted(a)) == list(sorted(b)) and all(same(a[k], b[k]) for k in a)
    if isinstance(a, list):
        return len(a) == len(b) and all(same(x, y) for x, y in zip(a, b))
    return a == b


def run(tier):
    rep = Report("C04", "exploration", tier)
    schema = space.core_schema()
    sdl = schema.sdl()
    depth = 2 if tier == "quick" else 3
    ops = []
    for tn in NAMED:
        exprs = gql.all_type_exprs(tn, depth)
        if tn == "Pick":
            pass
        vars_ = [("a%d" % i, gql.type_str(t), None) for i, t in enumerate(exprs)]
        ops.append({"what": "all placements of " + tn, "vars": [(n, gql.parse_type(t)) for n, t, _ in vars_],
                    "doc": Doc([Op("query", "Op", [Field("version")], vars_)])})
    special = [("v", "Int"), ("myVar", "String!"), ("type", "Role"), ("Big", "[Int!]"), ("snake_case_name", "Boolean"), ("x1", "Range")]
    ops.append({"what": "special names", "vars": [(n, gql.parse_type(t)) for n, t in special],
                "doc": Doc([Op("query", "Op", [Field("version")], [(n, t, None) for n, t in special])])})
    for n in ("_v", "SCREAMING_NAME", "fn", "self", "async"):
        ops.append({"what": "special name " + n, "vars": [(n, gql.parse_type("Filter")), ("other", gql.parse_type("Int!"))],
                    "doc": Doc([Op("mutation", "Op", [Field("touch")], [(n, "Filter", None), ("other", "Int!", None)])])})
    ops.append({"what": "no variables", "vars": [], "doc": Doc([Op("query", "Op", [Field("version")])])})
    # variables that declare a default value in the operation (a None still has to be written as the options say)
    dflt = [("first", "Int", "3"), ("msg", "String", '"o, hai"'), ("flag", "Boolean", "true"), ("ratio", "Float", "1.5"),
            ("many", "[Int!]", "[1, 2]"), ("need", "Int!", "7"), ("plain", "String", None), ("rg", "Range", "{from: 1}")]
    ops.append({"what": "variables with defaults", "vars": [(n, gql.parse_type(t)) for n, t, _ in dflt],
                "doc": Doc([Op("query", "Op", [Field("version")], dflt)])})
    optsets = [{"skip_none": False, "normalization": "none"}, {"skip_none": True, "normalization": "none"},
               {"skip_none": False, "normalization": "rust"}, {"skip_none": True, "normalization": "rust"}]
    mods = []
    for o in ops:
        for os_ in optsets:
            mods.append(dict(o, opts=os_))
    resps = generate([gen_request(sdl, gql.render_doc(m["doc"]), dict(DEFAULT_OPTS, variables_derives="Deserialize,Debug", **m["opts"])) for m in mods])
    farm = Farm("c04")
    for m, r in zip(mods, resps):
        m["label"] = {"what": m["what"], "options": m["opts"], "query": gql.render_doc(m["doc"])}
        if r["status"] != "ok":
            rep.violation("generation_failed", m["label"], r.get("msg"))
            m["case"] = None
            continue
        m["case"] = farm.add(Case(r["tokens"], [("op", "Op")], prelude="pub type Date = String; pub type date_time = String; pub type DateTime = String;", resp=False, extra_glue=DBG_GLUE))
    farm.build()
    model = InputModel(schema, max_depth=1)
    outcomes = {}
    per = {}
    n_assign = n_forbidden = n_distinct = 0
    sample_pool = []
    cap = 2500 if tier == "quick" else 10000
    groups = {}
    for m in mods:
        groups.setdefault(m["what"], []).append(m)
    pending = []   # (module, assignment, None) or (module, forbidden variant, (description, path))
    BATCH = 12000  # requests held in memory at a time (whole operations are batched together: all shards stay busy)

    def flush():
        if not pending:
            return
        res = farm.run([{"case": m["case"], "module": "op", "what": "vars_dbg" if (neg and neg[0] == "__dbg__") else "vars",
                         "arg": a if m["vars"] else None} for m, a, neg in pending])
        for (m, assignment, neg), r in zip(pending, res):
            key = m["case"]
            if neg is not None and neg[0] == "__dbg__":
                # every enum string of an assignment is a schema value: it must arrive in its own variant, not in the catch-all
                # (otherwise the value a user builds with that variant is sent under another name)
                if r and r.get("ok") and "Other(" in r["out"]:
                    dkey = (m["case"], "dbg")
                    per[dkey] = per.get(dkey, 0) + 1
                    if per[dkey] <= 3:
                        rep.violation("schema_enum_value_in_catch_all_variant", dict(m["label"], assignment=assignment), r["out"][:400])
                outcomes["variant_checked"] = outcomes.get("variant_checked", 0) + 1
                continue
            if neg is not None:
                desc, path = neg
                if not r or not r.get("ok"):
                    outcomes["forbidden_rejected"] = outcomes.get("forbidden_rejected", 0) + 1
                    continue
                got = json.loads(r["out"]).get("variables")
                cur, present = got, True
                for k in path:
                    try:
                        cur = cur[k]
                    except (KeyError, IndexError, TypeError):
                        present = False
                        break
                bad = (not present) or cur is None or (desc.startswith("@oneOf") and (not isinstance(cur, dict) or len(cur) != 1 or None in cur.values()))
                okey = "forbidden_accepted_" + ("invalid_output" if bad else "repaired_output")
                outcomes[okey] = outcomes.get(okey, 0) + 1
                if bad:
                    nkey = (m["case"], "neg")
                    per[nkey] = per.get(nkey, 0) + 1
                    if per[nkey] <= 3:
                        rep.violation("variables_value_serialises_to_invalid_json", dict(m["label"], what_is_wrong=desc, at=path, accepted=assignment),
                                      {"serialised_variables": got})
                continue
            if not r or not r.get("ok"):
                outcomes["rejected"] = outcomes.get("rejected", 0) + 1
                per[key] = per.get(key, 0) + 1
                if per[key] <= 3:
                    rep.violation("valid_assignment_not_expressible", dict(m["label"], assignment=assignment), (r or {}).get("err"))
                continue
            outcomes["ok"] = outcomes.get("ok", 0) + 1
            body = json.loads(r["out"])
            problems = []
            if sorted(body) != ["operationName", "query", "variables"]:
                problems.append("body members %s" % sorted(body))
            want = {}
            for n, t in m["vars"]:
                e = model.expected(assignment[n], t, m["opts"]["skip_none"], struct_level=True)
                if e is not DROP:
                    want[n] = e
            got = body.get("variables")
            if not m["vars"]:
                if got is not None and got != {}:
                    problems.append("variables %r for an operation without variables" % (got,))
            elif not same(got, want):
                problems.append("variables %s, model says %s" % (json.dumps(got)[:300], json.dumps(want)[:300]))
            if body.get("operationName") != "Op":
                problems.append("operationName %r" % body.get("operationName"))
            if problems:
                per[key] = per.get(key, 0) + 1
                if per[key] <= 3:
                    rep.violation("variables_differ_from_model", dict(m["label"], assignment=assignment), problems)
        del pending[:]

    # one operation at a time, and within it one module (option set) at a time: vectors are built, run, judged and
    # dropped, which bounds the memory held in requests and answers
    for what, gmods in groups.items():
        live = []
        for m in gmods:
            if not m["case"]:
                continue
            fc = farm.cases[m["case"]]
            if not fc.compiles:
                sigs = set()
                if m["opts"]["normalization"] == "rust" and any(gql.named(t) == "ID" for _, t in m["vars"]):
                    sigs.add("id_variable_with_rust_normalization")
                rep.violation("does_not_compile", m["label"], [(e["code"], e["message"][:150]) for e in fc.errors[:2]], sigs)
                continue
            live.append(m)
        if not live:
            continue
        m0 = live[0]

        def build(ch, m=m0):
            return {n: model.value(t, ch, n) for n, t in m["vars"]}

        probe = gql.Chooser()
        build(probe)
        alts = sum(a - 1 for a in probe.arity)
        dev = 2 if 1 + alts + alts * alts // 2 <= cap * 2 else 1
        vecs = [a for _, _, a in gql.explore_choices(build, dev, cap + 1)]
        if len(vecs) > cap:
            vecs = [a for _, _, a in gql.explore_choices(build, 1, cap + 1)]
            dev = 1
        n_distinct += len(vecs)
        forb = []
        if m0["vars"]:
            seenf = set()
            for assignment in vecs[:(3 if tier == "quick" else 12)]:
                for desc, path, variant in forbidden_variants(model, m0["vars"], assignment):
                    k = json.dumps([desc, variant], sort_keys=True)
                    if k not in seenf:
                        seenf.add(k)
                        forb.append((desc, path, variant))
        for m in live:
            m["dev"], m["nvec"] = dev, len(vecs)
            pending.extend((m, a, None) for a in vecs)
            pending.extend((m, a, ("__dbg__", None)) for a in vecs[:(40 if tier == "quick" else 400)] if m["vars"])
            pending.extend((m, variant, (desc, path)) for desc, path, variant in forb)
            n_assign += len(vecs)
            n_forbidden += len(forb)
            if len(sample_pool) < 400:
                sample_pool += [{"what": m["what"], "options": m["opts"], "assignment": a} for a in vecs[:3]]
        del vecs, forb
        if len(pending) >= BATCH:
            flush()
    flush()
    log(f"[C04] {len(mods)} modules, {n_assign} assignments, {n_forbidden} forbidden assignments")
    cov = {
        "evaluations": n_assign + n_forbidden, "distinct_nontrivial": n_distinct, "forbidden_assignments": n_forbidden,
        "rule": "operations: one per named input type {Int, Float, String, Boolean, ID, custom scalar, enum, input object, "
                "recursive input object, @oneOf input, @oneOf input with a single member} declaring a variable for every type expression of list depth <= %d, "
                "plus special variable names (camelCase, keywords, leading underscore, SCREAMING) and an operation without "
                "variables; x skip_serializing_none {off, on} x normalization {none, rust}; assignments = every choice vector "
                "(null / value at each nullable member, list lengths 1/0/2, scalar boundary values, each enum value, each @oneOf "
                "member, recursion depth <= 2) within deviation bound 2 of the richest assignment (1 when bound 2 exceeds the per-module cap: 2500 quick, 10000 thorough); "
                "distinct = (operation, assignment); plus, per module, every invalid neighbour of the richest assignments (null or "
                "missing key at each non-null position, @oneOf with a null / no / two members): Deserialize must refuse it, "
                "otherwise a Variables value exists that serialises to invalid JSON" % depth,
        "modules": len(mods), "distinct_outcomes": outcomes, "exhaustive": False,
        "per_module": pick_samples([{"what": m["what"], "options": m["opts"], "vectors": m.get("nvec"), "deviation_bound": m.get("dev")} for m in mods], 8),
        "samples": pick_samples(sample_pool, 5),
    }
    return rep.finish(cov, ["ID values in variables are strings (Variables is the user's own value; the generated type is String)"])
