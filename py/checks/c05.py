"""C05 — request body carries the verbatim document and the right operation name.

States = query document texts of a grammar (1-3 operations and 0-2 fragments in every order;
trivia deviations: tabs, LF / CRLF / CR, commas, comments incl. one that looks like an operation,
string escapes, block strings, non-ASCII, trailing newline or not); transitions = selections
(struct / operation name matching, not matching, matching only after normalization) x
normalization x mode {derive, cli} x entry point {file, string}. Model: QUERY is the source text
byte for byte, OPERATION_NAME the unmodified name, the module belongs to that operation, no
fallback in derive mode. Conformance: constants and the serialised request body are read back from
compiled modules.
"""
import itertools
import json
import os
import re

import space
import gql
from common import Report, pick_samples, log, scratch_file, sha, WORK
from farm import Farm, Case
from genlib import generate, DEFAULT_OPTS, snake

DEFS = {
    "Alpha": ("op", "query", "Alpha", "query Alpha { version }", ["version"], []),
    "beta_op": ("op", "mutation", "beta_op", "mutation beta_op($name: String!, $n: Int) { rename(id: \"x\", name: $name) { ...UF } touch }",
                ["rename", "touch"], ["name", "n"]),
    "GammaOp": ("op", "subscription", "GammaOp", "subscription GammaOp { tick }", ["tick"], []),
    "Esc": ("op", "query", "Esc", 'query Esc { user(id: "a\\"b\\\\c é") { name } count }', ["user", "count"], []),
    # a block string (with an escaped triple quote), the character pairs that end raw Rust strings, a unicode escape,
    # braces and a dollar sign inside strings
    "Esc2": ("op", "query", "Esc2", 'query Esc2 { user(id: """blk "q" \\""" "# "## r#"x"# é {x} $y""") { name } search(filter: {text: "\\u00e9\\t{}#\\"#"}) { __typename } }',
             ["user", "search"], []),
    # an operation named like a Rust keyword: whatever the generator does to make identifiers of it, the name that goes
    # on the wire is the document's
    "Kw": ("op", "query", "type", "query type { version count }", ["version", "count"], []),
    "UF": ("frag", None, "UF", "fragment UF on User { id name }", None, None),
    "QF": ("frag", None, "QF", "fragment QF on Q { count }", None, None),
    # fragments that share their NAME with an operation of the same document (separate namespaces in GraphQL)
    "FAlpha": ("frag", None, "Alpha", "fragment Alpha on Q { count }", None, None),
    "FGamma": ("frag", None, "GammaOp", "fragment GammaOp on User { id name }", None, None),
}


def camel(name):
    parts = re.split(r"_+", name)
    out = []
    for p in parts:
        for w in re.findall(r"[A-Z]+(?![a-z])|[A-Z]?[a-z0-9]+", p):
            out.append(w[:1].upper() + w[1:].lower())
    return "".join(out)


def norm(name, normalization):
    return camel(name) if normalization == "rust" else name


def documents():
    """(description, [def keys in order], text) with canonical spacing: every order of every admissible set."""
    out = []
    ops = ["Alpha", "beta_op", "GammaOp"]
    for r in (1, 2, 3):
        for chosen in itertools.combinations(ops, r):
            fr_sets = [[]]
            if "beta_op" in chosen:
                fr_sets = [["UF"]]
            fr_sets = fr_sets + [f + ["QF"] for f in fr_sets]
            for frs in fr_sets:
                for perm in itertools.permutations(list(chosen) + frs):
                    out.append(("order " + " ".join(perm), list(perm), "\n".join(DEFS[k][3] for k in perm) + "\n"))
    # namesakes: every order of operations and fragments where a fragment is called like one of the operations
    for r in (2, 3):
        for chosen in itertools.combinations(ops, r):
            base = ["UF"] if "beta_op" in chosen else []
            twins = [k for k, o in (("FAlpha", "Alpha"), ("FGamma", "GammaOp")) if o in chosen]
            for tw in [[t] for t in twins] + ([twins] if len(twins) == 2 and r == 2 else []):
                for perm in itertools.permutations(list(chosen) + base + tw):
                    out.append(("order(namesake) " + " ".join(perm), list(perm), "\n".join(DEFS[k][3] for k in perm) + "\n"))
    out.append(("escapes", ["Esc"], DEFS["Esc"][3] + "\n"))
    out.append(("escapes + others", ["Alpha", "Esc", "QF"], "\n".join(DEFS[k][3] for k in ["Alpha", "Esc", "QF"])))
    out.append(("keyword-named operation", ["Kw", "Alpha"], DEFS["Kw"][3] + "\n" + DEFS["Alpha"][3] + "\n"))
    out.append(("escapes2", ["Esc2"], DEFS["Esc2"][3] + "\n"))
    out.append(("escapes2 + others", ["Esc2", "Alpha", "Esc"], "\r\n".join(DEFS[k][3] for k in ["Esc2", "Alpha", "Esc"])))
    return out


TRIVIA = ["\t", "\n", "\r\n", "\r", ",", "  ", " # plain comment\n", " # é ✓ commentaire\r\n", " # query Fake { version }\n", "\ufeff"]


def trivia_variants(keys, max_dev):
    """Texts with <= max_dev trivia deviations at chosen separator positions of the canonical text."""
    toks = []
    for k in keys:
        toks.append(re.findall(r'"(?:\\.|[^"\\])*"|[^\s"]+', DEFS[k][3]))
    flat = []
    for t in toks:
        flat.extend(t)
        flat.append(None)  # definition boundary
    flat.pop()
    # separator positions: index i is the gap after token i (None marks the boundary gap itself)
    gaps = [i for i in range(len(flat)) if flat[i] is not None and i + 1 < len(flat) and flat[i + 1] is not None]
    bounds = [i for i in range(len(flat)) if flat[i] is None]
    chosen = sorted(set([gaps[0], gaps[1], gaps[len(gaps) // 2], gaps[-1]] + bounds[:1]))
    lead_trail = ["lead", "trail"]
    positions = chosen + lead_trail
    out = []
    for n in range(1, max_dev + 1):
        for pos in itertools.combinations(positions, n):
            for kinds in itertools.product(TRIVIA, repeat=n):
                sub = dict(zip(pos, kinds))
                if any(k == "\ufeff" and p != "lead" for p, k in sub.items()):
                    continue
                parts = [sub.get("lead", "")]
                for i, t in enumerate(flat):
                    if t is None:
                        parts.append(sub.get(i, "\n"))
                        continue
                    parts.append(t)
                    if i + 1 < len(flat) and flat[i + 1] is not None:
                        parts.append(sub.get(i, " "))
                parts.append(sub.get("trail", ""))
                out.append(("trivia%d %s" % (n, {str(p): k for p, k in sub.items()}), keys, "".join(parts)))
    return out


def expected(keys, mode, name, normalization):
    ops = [DEFS[k] for k in keys if DEFS[k][0] == "op"]
    if mode == "derive":
        m = [o for o in ops if norm(o[2], normalization) == name]
        if not m:
            return ("err", [o[2] for o in ops])
        return ("ok", [m[0]])
    if name is None:
        return ("ok", ops)
    m = [o for o in ops if norm(o[2], normalization) == name]
    if not m:
        # documented: a name that selects nothing falls back to ALL operations - and then each module still has to
        # belong to its own operation (constants, ResponseData, Variables)
        return ("ok", ops)
    return ("ok", [m[0]])


def top_modules(items):
    return [it for it in items if it["kind"] == "mod"]


def run(tier):
    rep = Report("C05", "model_checking", tier)
    schema = space.core_schema()
    sdl = schema.sdl()
    sp = scratch_file(sdl, "graphql")
    docs = documents()
    dev = 1 if tier == "quick" else 2
    docs += trivia_variants(["Alpha"], 2)
    docs += trivia_variants(["beta_op", "UF", "GammaOp"], dev)
    docs += trivia_variants(["Esc", "QF", "Alpha"], dev)
    uniq = {}
    for d in docs:
        uniq.setdefault(d[2], d)
    docs = list(uniq.values())
    cases = []
    qdir = os.path.join(WORK, "scratch", "c05")
    os.makedirs(qdir, exist_ok=True)
    for desc, keys, text in docs:
        opnames = [DEFS[k][2] for k in keys if DEFS[k][0] == "op"]
        canonical = desc.startswith("order") or desc.startswith("escapes") or desc.startswith("keyword")
        sels = []
        for normalization in ("none", "rust"):
            names = set(opnames) | {camel(n) for n in opnames} | {"Nope"}
            for n in sorted(names):
                sels.append(("derive", n, normalization))
            sels.append(("cli", None, normalization))
            for n in sorted(set(opnames) | {camel(x) for x in opnames} | {"Nope"}):
                sels.append(("cli", n, normalization))
        if not canonical:
            # trivia documents: one matching selection per mode (the selection space is covered on the canonical ones)
            # (an operation whose name is its own snake_case form collides with its module unless normalized: C02's matter)
            sels = [("derive", opnames[0], "none"), ("cli", None, "rust" if any(snake(n) == n for n in opnames) else "none"),
                    ("derive", camel(opnames[-1]), "rust")]
        for mode, name, normalization in sels:
            for entry in (("file", "string") if canonical or mode == "derive" else ("file",)):
                cases.append({"desc": desc, "keys": keys, "text": text, "mode": mode, "name": name, "norm": normalization, "entry": entry})
    reqs = []
    for c in cases:
        opts = dict(DEFAULT_OPTS, mode=c["mode"], normalization=c["norm"])
        if c["name"] is not None:
            opts["operation_name"] = c["name"]
            if c["mode"] == "derive":
                opts["struct_ident"] = c["name"]
        req = {"op": "gen", "schema_path": sp, "options": opts, "inspect": True}
        if c["entry"] == "file":
            p = os.path.join(qdir, sha(c["text"])[:24] + ".graphql")
            if not os.path.exists(p):
                with open(p, "wb") as f:
                    f.write(c["text"].encode("utf-8"))
            req["query_path"] = p
        else:
            req["query_text"] = c["text"]
        reqs.append(req)
    log(f"[C05] {len(docs)} document texts, {len(cases)} (document, selection) transitions")
    resps = generate(reqs, progress=20000)
    farm = Farm("c05")
    outcomes = {}
    samples = []
    to_compile = {}
    for c, r in zip(cases, resps):
        want, ops = expected(c["keys"], c["mode"], c["name"], c["norm"])
        label = {"document": c["text"], "what": c["desc"], "mode": c["mode"], "selected": c["name"], "normalization": c["norm"], "entry": c["entry"]}
        outcomes[(want, r["status"])] = outcomes.get((want, r["status"]), 0) + 1
        if want == "unjudged":
            continue
        if want == "err":
            if r["status"] == "ok":
                rep.violation("fallback_to_other_operation", label, "derive mode generated code although no operation is named %r" % c["name"])
            elif r["status"] == "err":
                missing = [n for n in ops if n not in (r.get("msg") or "")]
                if missing:
                    rep.violation("error_does_not_list_operations", label, {"missing": missing, "msg": r.get("msg")})
            elif r["status"] != "panic":
                rep.violation("unexpected_status", label, r)
            continue
        if "Kw" in c["keys"]:
            # the generated items may not even be Rust (`mod type`): read the constants from the token text
            if r["status"] == "ok":
                got = re.findall(r'OPERATION_NAME : & str = "([^"]*)"', r.get("tokens") or "")
                if got != [o[2] for o in ops]:
                    rep.violation("operation_name_modified", label, {"emitted": got, "expected": [o[2] for o in ops]})
            continue
        if r["status"] != "ok":
            rep.violation("supported_selection_rejected", label, r.get("msg") or r["status"])
            continue
        mods = top_modules(r["items"])
        if [m["name"] for m in mods] != [snake(o[2]) for o in ops]:
            rep.violation("wrong_modules", label, {"modules": [m["name"] for m in mods], "expected": [snake(o[2]) for o in ops]})
            continue
        impls = [it for it in r["items"] if it["kind"] == "impl"]
        for m, o in zip(mods, ops):
            consts = {it["name"]: it for it in m["items"] if it["kind"] == "const"}
            q = consts.get("QUERY")
            on = consts.get("OPERATION_NAME")
            if not q or not q["is_lit"] or q["value"] != c["text"]:
                rep.violation("query_not_verbatim", dict(label, module=m["name"]), {"emitted": q and q["value"]})
            if not on or on["value"] != o[2]:
                rep.violation("operation_name_modified", dict(label, module=m["name"]), {"emitted": on and on["value"], "expected": o[2]})
            rd = next((it for it in m["items"] if it["kind"] == "struct" and it["name"] == "ResponseData"), None)
            wires = []
            for f in (rd or {}).get("fields", []):
                w = f["name"]
                for a in f["attrs"]:
                    if a["path"] == "serde" and "rename" in a["kv"]:
                        w = a["kv"]["rename"]
                wires.append(w)
            if wires != o[4]:
                rep.violation("response_data_of_other_operation", dict(label, module=m["name"]), {"fields": wires, "expected": o[4]})
            vs = next((it for it in m["items"] if it["kind"] == "struct" and it["name"] == "Variables"), None)
            vw = []
            for f in (vs or {}).get("fields", []):
                w = f["name"]
                for a in f["attrs"]:
                    if a["path"] == "serde" and "rename" in a["kv"]:
                        w = a["kv"]["rename"]
                vw.append(w)
            if vw != o[5]:
                rep.violation("variables_of_other_operation", dict(label, module=m["name"]), {"fields": vw, "expected": o[5]})
        if [i["self_ty"] for i in impls] != [norm(o[2], c["norm"]) for o in ops]:
            rep.violation("impl_for_wrong_struct", label, [i["self_ty"] for i in impls])
        if len(samples) < 3000:
            samples.append({k: label[k] for k in ("what", "mode", "selected", "normalization", "entry")})
        # conformance subset: cli, file entry, one per trivia class / selection class
        if c["mode"] == "cli" and c["entry"] == "file":
            key = (c["text"], c["name"], c["norm"])
            # class = (base document, kinds of trivia and kind of position, selection class); single-deviation trivia
            # classes are compiled first (the compiler's own handling of the literal - line endings, BOM - is per kind)
            d = c["desc"]
            prio = 0 if d.startswith("trivia1") else (1 if not d.startswith("trivia") else 2)
            klass = (prio, tuple(c["keys"]) if prio != 1 else (), re.sub(r"'\d+'", "'inner'", d) if prio != 1 else (d if d.startswith("escapes") else re.sub(r"\d+", "", d)[:40]),
                     c["name"] is None, c["norm"])
            if klass not in to_compile:
                to_compile[klass] = (c, r, ops)
    compiled = []
    by_prio = {0: [], 1: [], 2: []}
    for kv in to_compile.items():
        by_prio[kv[0][0]].append(kv)
    log("[C05] conformance classes: %s" % {k: len(v) for k, v in by_prio.items()})
    by_prio[1].sort(key=lambda kv: not kv[1][0]["desc"].startswith("escapes"))  # stable: escape documents first
    caps = {0: 200, 1: 200, 2: 100} if tier == "quick" else {0: 400, 1: 600, 2: 600}
    chosen = [kv for k in (0, 1, 2) for kv in by_prio[k][:caps[k]]]
    for klass, (c, r, ops) in chosen:
        mods = [(snake(o[2]), norm(o[2], c["norm"])) for o in ops]
        cid = farm.add(Case(r["tokens"], mods, prelude="pub type Date = String;", resp=False, vars_=True))
        compiled.append((c, cid, ops))
    farm.build()
    freqs, fmeta = [], []
    not_compiled = []
    for c, cid, ops in compiled:
        fc = farm.cases[cid]
        if not fc.compiles:
            not_compiled.append(c["desc"])  # whether generated code type-checks is C02's question, not this one's
            continue
        for o in ops:
            freqs.append({"case": cid, "module": snake(o[2]), "what": "const", "arg": None})
            fmeta.append((c, o, "const"))
            args = {"name": "n", "n": None} if o[5] else None
            freqs.append({"case": cid, "module": snake(o[2]), "what": "vars", "arg": args})
            fmeta.append((c, o, "vars"))
    fres = farm.run(freqs)
    validated = 0
    for (c, o, what), r in zip(fmeta, fres):
        validated += 1
        label = {"document": c["text"], "operation": o[2], "entry": what}
        if not r or not r.get("ok"):
            rep.violation("compiled_module_failed", label, r)
            continue
        out = json.loads(r["out"])
        if what == "const":
            if out["query"] != c["text"] or out["operation_name"] != o[2]:
                rep.violation("compiled_constants_differ", label, out)
        else:
            if sorted(out) != ["operationName", "query", "variables"]:
                rep.violation("request_body_members", label, sorted(out))
            elif out["query"] != c["text"] or out["operationName"] != o[2]:
                rep.violation("request_body_content", label, {k: out[k] for k in ("operationName",)})
    cov = {
        "states": len(docs), "transitions": len(cases), "traces_validated_against_impl": validated,
        "evaluations": len(cases) + validated, "distinct_nontrivial": len(docs),
        "rule": "state = distinct document text: every order of every admissible set of 1-3 operations and 0-2 fragments "
                "(canonical spacing), every order of the documents in which a fragment has the same name as one of the operations, plus texts within %d trivia deviations (10 kinds at 5-7 positions incl. leading / trailing) "
                "of three base documents; transition = (document, mode, selected name, normalization, entry point): on "
                "canonical documents every defined name, its CamelCase form and an undefined name for both modes and "
                "normalizations and both entry points" % dev,
        "distinct_outcomes": {"%s/%s" % k: v for k, v in outcomes.items()}, "modules_compiled": len(farm.cases),
        "modules_not_compiling_left_to_C02": len(not_compiled),
        "exhaustive": True,
        "samples": pick_samples(samples, 6),
    }
    return rep.finish(cov, ["operation names are kept distinct after snake-casing",
                            "a CLI call with an explicit name that matches no operation is documented to fall back to all operations: judged as 'every operation, each module complete'",
                            "module names are predicted with a snake_case model for the simple identifiers of the alphabet"])
