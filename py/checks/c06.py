"""C06 — operations the schema cannot answer are never turned into code.

Exhaustive single-point invalidation: every valid operation of the bounded operation space x every
applicable instance of the ten invalidating edits at every selection set (any depth, inside named
and inline fragments, on object / interface / union parents). The reference validator must call the
edited document invalid (otherwise the edit is not counted); the real generator must answer with an
error or a panic carrying a message - never with code.
"""
import json

import gql
import space
from gql import Field, Inline, Spread, FragDef, Op, Doc
from common import Report, pick_samples, log
from genlib import gen_request, generate


def make_editor(schema, frags):
    composite = [t.name for t in schema.types.values() if t.kind in ("OBJECT", "INTERFACE", "UNION")]

    def editor(parent, sel, where):
        kind = schema.kind(parent)
        sel = tuple(sel)
        # 1 unknown field
        yield ("unknown_field", sel + (Field("nope"),))
        # ... also where a literal condition says the server will never send it (a document is valid or not as written)
        yield ("unknown_field", sel + (Field("nope", directives=[("skip", "=true")]),))
        yield ("unknown_field", sel + (Field("nope", directives=[("include", "=false")]),))
        yield ("undefined_fragment", sel + (Spread("Undefined", directives=[("skip", "=true")]),))
        yield ("unknown_type_condition", sel + (Inline("NoSuchType", [Field("__typename")], directives=[("include", "=false")]),))
        if kind == "UNION":
            yield ("unknown_field", sel + (Field("id"),))
        # 4 undefined fragment
        yield ("undefined_fragment", sel + (Spread("Undefined"),))
        # 5 type condition naming no type
        yield ("unknown_type_condition", sel + (Inline("NoSuchType", [Field("__typename")]),))
        # 6 impossible conditions
        # (one representative per kind of condition type: object, interface, union)
        mine = set(schema.possible_types(parent))
        done_kinds = set()
        for x in composite:
            if not (set(schema.possible_types(x)) & mine) and schema.kind(x) not in done_kinds:
                body = [Field("__typename")]
                yield ("impossible_condition", sel + (Inline(x, body),))
                if not done_kinds:
                    yield ("impossible_condition_first", (Inline(x, body),) + sel)
                done_kinds.add(schema.kind(x))
        # ... a named fragment of the document (usually already spread, validly, somewhere else) spread once more where
        # its type condition can never apply: validity is judged per spread, not per fragment definition
        done_kinds = set()
        for fname, fd_ in (frags.items() if hasattr(frags, "items") else []):
            if schema.kind(fd_.on) and not (set(schema.possible_types(fd_.on)) & mine) and schema.kind(fd_.on) not in done_kinds:
                yield ("impossible_condition", sel + (Spread(fname),))
                yield ("impossible_condition_first", (Spread(fname),) + sel)
                done_kinds.add(schema.kind(fd_.on))
        # 7 __typename removed from an abstract selection
        if kind in ("INTERFACE", "UNION") and not where.split("/")[-1].startswith("...on "):
            if any(isinstance(s, Field) and s.name == "__typename" for s in sel):
                stripped = tuple(s for s in sel if not (isinstance(s, Field) and s.name == "__typename"))
                if stripped:
                    yield ("missing_typename", stripped)
        # 2 / 3 on individual fields
        for i, s in enumerate(sel):
            if not isinstance(s, Field) or s.name == "__typename":
                continue
            fd = schema.field_def(parent, s.name)
            if fd is None:
                continue
            tn = gql.named(fd.type)
            if schema.is_composite(tn):
                # object-typed and abstract-typed fields are told apart: only the former is a listed finding
                desc = "missing_subselection" if schema.kind(tn) == "OBJECT" else "missing_subselection_abstract"
                yield (desc, sel[:i] + (Field(s.name, None, s.alias, s.args),) + sel[i + 1:])
                yield (desc, sel[:i] + (Field(s.name, None, s.alias, s.args, directives=[("include", "=false")]),) + sel[i + 1:])
                if s.sel:
                    # a composite field that is statically skipped still needs a VALID sub-selection
                    yield ("unknown_field", sel[:i] + (Field(s.name, tuple(s.sel) + (Field("nope"),), s.alias, s.args, directives=[("skip", "=true")]),) + sel[i + 1:])
            else:
                yield ("subselection_on_leaf", sel[:i] + (Field(s.name, [Field("x")], s.alias, s.args),) + sel[i + 1:])
                yield ("subselection_on_leaf", sel[:i] + (Field(s.name, [Field("x")], s.alias, s.args, directives=[("skip", "=true")]),) + sel[i + 1:])
                yield ("subselection_on_leaf", sel[:i] + (Field(s.name, [Field("__typename")], s.alias, s.args),) + sel[i + 1:])
                # ... a sub-selection made of fragments only (no field at all in it)
                any_frag = next(iter(frags), None)
                if any_frag is not None:
                    yield ("subselection_on_leaf", sel[:i] + (Field(s.name, [Spread(any_frag)], s.alias, s.args),) + sel[i + 1:])
                yield ("subselection_on_leaf", sel[:i] + (Field(s.name, [Inline(parent, [Field("__typename")])], s.alias, s.args),) + sel[i + 1:])
                yield ("subselection_on_leaf", sel[:i] + (Field(s.name, [Spread("Undefined")], s.alias, s.args),) + sel[i + 1:])

    return editor


def doc_level_edits(schema, doc):
    """Edits that are not at a selection set."""
    op = doc.ops[0]
    rest = [d for d in doc.defs if d is not op]
    # 9 anonymous operation (keyword without name; shorthand)
    yield "anonymous_operation", "", Doc(rest + [Op(op.kind, None, op.sel, op.vars)])
    if not op.vars:
        yield "anonymous_operation", "shorthand", Doc(rest + [Op(None, None, op.sel, ())])
    # 5 fragment definition on a type that does not exist
    for i, d in enumerate(doc.defs):
        if isinstance(d, FragDef):
            yield "unknown_type_condition", "fragment " + d.name, Doc(doc.defs[:i] + [FragDef(d.name, "NoSuchType", d.sel)] + doc.defs[i + 1:])
    # 4 spread whose definition is removed
    for i, d in enumerate(doc.defs):
        if isinstance(d, FragDef):
            yield "undefined_fragment", "definition of " + d.name + " removed", Doc(doc.defs[:i] + doc.defs[i + 1:])
    # 8 several root fields in a subscription
    if op.kind == "subscription":
        yield "subscription_root_fields", "", Doc(rest + [Op(op.kind, op.name, op.sel + (Field("tick", alias="t2"),), op.vars)])
        yield "subscription_root_fields", "", Doc(rest + [Op(op.kind, op.name, op.sel + op.sel, op.vars)])


def run(tier):
    rep = Report("C06", "exploration", tier)
    schema = space.core_schema()
    sdl = schema.sdl()
    variants = {
        "no_mutation": space.core_schema(mutation=False).sdl(),
        "no_subscription": space.core_schema(subscription=False).sdl(),
    }
    # an explicit `schema { query: Q }` block that lists no mutation / subscription root, while ordinary object types
    # carry the conventional names Mutation / Subscription (with the very fields the operations select)
    full = space.core_schema()
    shadow_types = [t for t in space.core_schema(mutation=False, subscription=False).types.values()]
    for conventional, real in (("Mutation", "M"), ("Subscription", "Sub")):
        shadow_types.append(gql.obj(conventional, list(full.types[real].fields)))
    variants["shadow_roots"] = gql.Schema(shadow_types, {"query": "Q"}, explicit=True).sdl()
    base = []
    for focus, labels, doc in space.operation_space(tier):
        if not gql.validate(schema, doc):
            base.append((focus, labels, doc))
    cases = []
    not_invalidating = 0
    seen = set()
    for focus, labels, doc in base:
        editor = make_editor(schema, doc.frags)
        edits = list(gql.single_point_edits(schema, doc, editor)) + list(doc_level_edits(schema, doc))
        for desc, where, nd in edits:
            key = nd.canon()
            if key in seen:
                continue
            seen.add(key)
            errs = gql.validate(schema, nd)
            rule = desc.replace("_first", "").replace("_abstract", "")
            if not any(e[0] == rule or (rule == "anonymous_operation" and e[0] == "anonymous_operation") for e in errs):
                not_invalidating += 1
                continue
            cases.append({"edit": desc, "where": where, "schema": "CORE", "sdl": sdl, "doc": nd, "base": gql.render_doc(doc),
                          "parent_kind": None})
        op = doc.ops[0]
        if op.kind == "mutation":
            cases.append({"edit": "missing_root_type", "where": "mutation", "schema": "CORE without mutation type",
                          "sdl": variants["no_mutation"], "doc": doc, "base": gql.render_doc(doc)})
        if op.kind == "subscription":
            cases.append({"edit": "missing_root_type", "where": "subscription", "schema": "CORE without subscription type",
                          "sdl": variants["no_subscription"], "doc": doc, "base": gql.render_doc(doc)})
        if op.kind in ("mutation", "subscription"):
            cases.append({"edit": "missing_root_type", "where": op.kind + " (a type of the conventional name exists, the schema block does not list it)",
                          "schema": "CORE with `schema { query: Q }` and plain object types Mutation / Subscription",
                          "sdl": variants["shadow_roots"], "doc": doc, "base": gql.render_doc(doc)})
    # rejection must not depend on the options: up to N instances of every edit kind once more under other option sets
    from genlib import DEFAULT_OPTS
    OPTION_SETS = [{"other_variant": True, "normalization": "rust"}, {"deprecation": "deny", "skip_none": True},
                   {"mode": "derive", "struct_ident": "Op", "operation_name": "Op"}]
    per_kind = {}
    extra = []
    for c in cases:
        k = c["edit"]
        per_kind[k] = per_kind.get(k, 0) + 1
        if per_kind[k] <= (60 if tier == "quick" else 600):
            for o in OPTION_SETS:
                extra.append(dict(c, opts=o))
            # ... and with the schema supplied as introspection JSON (rejection must not depend on the schema's form)
            if c["schema"] == "CORE":
                extra.append(dict(c, json_schema=True))
    cases = cases + extra
    core_json = schema.introspection()
    reqs = [gen_request(core_json if c.get("json_schema") else c["sdl"], gql.render_doc(c["doc"]), dict(DEFAULT_OPTS, **c["opts"]) if c.get("opts") else None,
                        ext="json" if c.get("json_schema") else "graphql", tokens=False) for c in cases]
    log(f"[C06] {len(base)} valid base operations, {len(cases)} invalid documents")
    resps = generate(reqs, progress=20000)
    outcomes = {}
    samples = []
    distinct = set()
    for c, r in zip(cases, resps):
        q = gql.render_doc(c["doc"])
        st = r["status"]
        outcomes[st] = outcomes.get(st, 0) + 1
        distinct.add((c["edit"].replace("_first", ""), c["where"], c["base"], json.dumps(c.get("opts"), sort_keys=True), bool(c.get("json_schema"))))
        label = {"schema": c["schema"], "schema_format": "introspection JSON" if c.get("json_schema") else "SDL", "edit": c["edit"], "where": c["where"], "query": q,
                 "options": c.get("opts") or "default"}
        if st == "ok":
            sigs = set()
            if c["edit"] == "missing_subselection":
                sigs.add("object_typed_field_without_subselection")
            if c["edit"].startswith("impossible_condition"):
                # parent kind of the edited selection set, from the reference model
                pk = parent_kind_at(schema, c["doc"], c["where"])
                if pk == "OBJECT":
                    sigs.add("impossible_condition_on_object_parent")
            rep.violation("invalid_operation_accepted", label, "generator returned code", sigs)
        elif st == "panic" and not (r.get("msg") or "").strip():
            rep.violation("panic_without_message", label, r)
        elif st in ("died", "timeout"):
            pass  # decided by C17 (termination); not code either
        elif st == "machinery":
            rep.violation("machinery", label, r)
        if len(samples) < 3000 and st != "ok":
            samples.append({"edit": c["edit"], "where": c["where"], "query": q[:300], "outcome": st, "msg": (r.get("msg") or "")[:120]})
    cov = {
        "evaluations": len(cases), "distinct_nontrivial": len(distinct),
        "rule": "base = every operation of the bounded operation space that the reference validator accepts; case = base "
                "+ one invalidating edit (unknown field, sub-selection on leaf, none on composite, undefined fragment, "
                "unknown / impossible type condition, __typename removed from an abstract selection, extra subscription root "
                "field, anonymous operation, missing root type) at one selection set; only edits the reference validator "
                "confirms as invalid are counted; up to 60 (thorough 600) instances per edit kind are repeated under three other "
                "option sets (other-variant + rust normalization; deny + skip-none; derive mode) and with the schema as introspection JSON; distinct = (edit kind, position, "
                "base operation, option set)",
        "base_operations": len(base), "edits_not_invalidating_skipped": not_invalidating,
        "distinct_outcomes": outcomes, "exhaustive": False,
        "samples": pick_samples(samples, 8),
    }
    return rep.finish(cov, ["the reference validator implements the ten rules the property lists, nothing more"])


def parent_kind_at(schema, doc, where):
    """Kind of the parent type of the selection set addressed by a `where` string of single_point_edits."""
    parts = where.split("/")
    head = parts[0]
    if head.startswith("fragment "):
        parent = doc.frags[head[len("fragment "):]].on
        sel = doc.frags[head[len("fragment "):]].sel
    else:
        op = doc.ops[0]
        parent = gql.root_type(schema, op)
        sel = op.sel
    for p in parts[1:]:
        if p.startswith("...on "):
            parent = p[len("...on "):]
            nxt = next((s for s in sel if isinstance(s, Inline) and s.on == parent), None)
        else:
            nxt = next((s for s in sel if isinstance(s, Field) and s.key == p), None)
            if nxt is not None:
                fd = schema.field_def(parent, nxt.name)
                parent = gql.named(fd.type) if fd else None
        if nxt is None or parent is None:
            return None
        sel = nxt.sel or ()
    return schema.kind(parent)
