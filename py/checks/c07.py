"""C07 — SDL and introspection JSON of the same schema generate identical code.

States = schemas of a feature lattice (every subset, up to a size bound, of 16 independent schema
constructs, plus the full set and the CORE schema); transitions = (rendering, covering operation,
option set) comparisons. Renderings come from the schema pack's own triple renderer: SDL, bare
introspection JSON, {"data": ...}-wrapped JSON, with choices of type order, built-in scalars /
`__` meta types listed or not, `extend type` kept or folded. Oracle: token streams are equal for
renderings that keep the definition order, and equal after sorting module items and enum variants
for permuted orders.
"""
import itertools
import json

import gql
import space
from gql import Field, Inline, Spread, FragDef, Op, Doc, TN, FieldDef
from common import Report, pick_samples, log
from genlib import gen_request, generate, DEFAULT_OPTS

FEATURES = ["iface", "impl2", "union", "enum", "scalar", "nesting", "dep_reason", "dep_iface", "input", "oneof",
            "rootnames", "mutation", "subscription", "extend", "args", "enum_dep", "extend_impl", "shadow_roots", "underscore", "extend_twice"]


def build(features):
    f = set(features)
    explicit = "rootnames" in f
    qn = "RootQ" if explicit else "Query"
    mn = "RootM" if explicit else "Mutation"
    sn = "RootS" if explicit else "Subscription"
    types = []
    qfields = [FieldDef("a", "Int")]
    sel = [Field("a")]
    vars_ = []
    late_ext = False
    if "iface" in f or "impl2" in f or "dep_iface" in f or "extend" in f or "extend_impl" in f or "underscore" in f or "extend_twice" in f:
        ifields = [FieldDef("id", "ID!")]
        if "dep_iface" in f:
            ifields.append(FieldDef("old", "String", dep=(None,)))
        types.append(gql.iface("Node", ifields))
        ofields = [FieldDef("id", "ID!"), FieldDef("name", "String")]
        if "dep_iface" in f:
            ofields.append(FieldDef("old", "String"))
        types.append(gql.obj("Obj", ofields, ["Node"]))
        node_sel = [TN(), Field("id"), Inline("Obj", [Field("name")])]
        if "dep_iface" in f:
            node_sel.insert(2, Field("old"))
        if "impl2" in f:
            o2 = [FieldDef("id", "ID!"), FieldDef("size", "Int!")]
            if "dep_iface" in f:
                o2.append(FieldDef("old", "String"))
            types.append(gql.obj("Obj2", o2, ["Node"]))
            node_sel.append(Inline("Obj2", [Field("size")]))
        if "extend_impl" in f:
            # `extend type Late implements Node` without a field block
            late = [FieldDef("id", "ID!"), FieldDef("late", "Int")]
            if "dep_iface" in f:
                late.append(FieldDef("old", "String"))
            types.append(gql.obj("Late", late))
            late_ext = True
            node_sel.append(Inline("Late", [Field("late")]))
        if "underscore" in f:
            # type names with ONE leading underscore are ordinary names (only `__` is reserved): an implementer that is
            # reachable only as a runtime type, a custom scalar, an enum and an input object
            u = [FieldDef("id", "ID!"), FieldDef("sdl", "String")]
            if "dep_iface" in f:
                u.append(FieldDef("old", "String"))
            types.append(gql.obj("_Service", u, ["Node"]))
            types.append(gql.scalar("_Any"))
            types.append(gql.enum("_UKind", ["A_ONE", "b_two"]))
            types.append(gql.inp("_UFilter", [("x", "Int"), ("k", "_UKind")]))
            qfields += [FieldDef("svc", "_Service"), FieldDef("any", "_Any"), FieldDef("uk", "_UKind!"),
                        FieldDef("ufind", "Int", args=[("uf", "_UFilter")])]
            sel += [Field("svc", [Field("sdl")]), Field("any"), Field("uk"), Field("ufind", args=[("uf", "$uf")])]
            vars_.append(("uf", "_UFilter", None))
        qfields.append(FieldDef("node", "Node"))
        sel.append(Field("node", node_sel))
    if "union" in f:
        types.append(gql.obj("UA", [("x", "Int")]))
        types.append(gql.obj("UB", [("y", "String!")]))
        types.append(gql.union("Uni", ["UB", "UA"]))
        qfields.append(FieldDef("uni", "[Uni!]"))
        sel.append(Field("uni", [TN(), Inline("UA", [Field("x")]), Inline("UB", [Field("y")])]))
    if "enum" in f or "enum_dep" in f:
        vals = ["ZED", "alpha", "Mid_Case"]
        if "enum_dep" in f:
            vals = [("ZED", None), ("alpha", ("gone",)), ("Mid_Case", (None,))]
        types.append(gql.enum("Kind", vals))
        types.append(gql.enum("Another", ["ONE"]))
        qfields.append(FieldDef("kind", "Kind!"))
        qfields.append(FieldDef("another", "Another"))
        sel += [Field("kind"), Field("another")]
    if "scalar" in f:
        types.append(gql.scalar("Zoned"))
        types.append(gql.scalar("Date"))
        qfields.append(FieldDef("when", "Date"))
        qfields.append(FieldDef("zoned", "[Zoned]"))
        sel += [Field("when"), Field("zoned")]
    if "nesting" in f:
        qfields.append(FieldDef("deep", "[[Int!]]!"))
        qfields.append(FieldDef("deeper", "[[[String]!]!]"))
        sel += [Field("deep"), Field("deeper")]
    if "dep_reason" in f:
        qfields.append(FieldDef("legacy", "String", dep=('use "a" \\ not é',)))
        qfields.append(FieldDef("legacy2", "Int", dep=(None,)))
        # reasons whose whitespace matters (runs of blanks, line breaks, a tab, blanks at both ends) and an empty one
        qfields.append(FieldDef("legacy3", "Int", dep=("  two  blanks\n\tnext line \r\n end ",)))
        qfields.append(FieldDef("legacy4", "Int", dep=("",)))
        sel += [Field("legacy"), Field("legacy2"), Field("legacy3"), Field("legacy4")]
    if "input" in f or "oneof" in f:
        types.append(gql.inp("Zin", [("flag", "Boolean")]))
        types.append(gql.inp("Filter", [("text", "String"), ("and", "Filter"), ("many", "[Filter!]"), ("z", "Zin!"),
                                        FieldDef("n", "Int", default="3"), FieldDef("m", "Int!", default="4"),
                                        FieldDef("ms", "[Int!]!", default="[1, 2]"), FieldDef("zd", "Zin!", default="{flag: true}")]))
        args = [("filter", "Filter")]
        if "oneof" in f:
            types.append(gql.inp("Pick", [("byId", "ID"), ("byZin", "Zin")], one_of=True))
            args.append(("pick", "Pick"))
        qfields.append(FieldDef("search", "Int", args=args))
        sel.append(Field("search", args=[(a[0], "$" + a[0]) for a in args]))
        vars_ += [(a[0], a[1], None) for a in args]
    if "args" in f:
        qfields.append(FieldDef("page", "Int", args=[("first", "Int", "10"), ("after", "String"), ("ids", "[ID!]", "[]")]))
        sel.append(Field("page", args=[("first", "$first")]))
        vars_.append(("first", "Int", "5"))
    extensions = []
    if "extend" in f:
        extensions.append(("Obj", [FieldDef("extra", "Int!"), FieldDef("tags", "[String!]!")], []))
        for s in sel:
            if isinstance(s, Field) and s.name == "node":
                new = []
                for x in s.sel:
                    if isinstance(x, Inline) and x.on == "Obj":
                        x = Inline("Obj", list(x.sel) + [Field("extra"), Field("tags")])
                    new.append(x)
                sel[sel.index(s)] = Field("node", new)
    if late_ext:
        extensions.append(("Late", [], ["Node"]))
    if "extend_twice" in f:
        # several `extend type` blocks of ONE type (fields in each, an interface in the first) and of the query root
        types.append(gql.iface("Tagged", [FieldDef("tag", "String")]))
        extensions.append(("Obj", [FieldDef("tag", "String"), FieldDef("e1", "Int")], ["Tagged"]))
        extensions.append(("Obj", [FieldDef("e2", "[Int!]")], []))
        extensions.append(("Obj", [FieldDef("e3", "ID")], []))
        qfields.append(FieldDef("tagged", "Tagged"))
        for s_ in sel:
            if isinstance(s_, Field) and s_.name == "node":
                new = []
                for x in s_.sel:
                    if isinstance(x, Inline) and x.on == "Obj":
                        x = Inline("Obj", list(x.sel) + [Field("e1"), Field("e2"), Field("e3")])
                    new.append(x)
                sel[sel.index(s_)] = Field("node", new)
        sel.append(Field("tagged", [TN(), Field("tag")]))
    types.append(gql.obj(qn, qfields))
    roots = {"query": qn}
    docs = [("Q", Doc([Op("query", "Op", sel, vars_)]))]
    if late_ext:
        # the interface selected without naming its implementers: the member that joined through the extension is
        # then visible only as a runtime type
        docs.append(("Qplain", Doc([Op("query", "Op", [Field("node", [TN(), Field("id")])])])))
    if "mutation" in f:
        types.append(gql.obj(mn, [FieldDef("bump", "Int!", args=[("by", "Int")])]))
        roots["mutation"] = mn
        docs.append(("M", Doc([Op("mutation", "Op", [Field("bump", args=[("by", "$by")])], [("by", "Int", None)])])))
    if "subscription" in f:
        types.append(gql.obj(sn, [FieldDef("ticks", "[Int!]!")]))
        roots["subscription"] = sn
        docs.append(("S", Doc([Op("subscription", "Op", [Field("ticks")])])))
    if "shadow_roots" in f:
        # an explicit `schema { query: .. }` block that does NOT list a mutation / subscription root, while ordinary
        # object types happen to be called Mutation / Subscription: operations of those kinds have no root type
        explicit = True
        for kind, tname, fld in (("mutation", "Mutation", "bump"), ("subscription", "Subscription", "ticks")):
            if kind in roots or tname in [t.name for t in types]:
                continue
            types.append(gql.obj(tname, [FieldDef(fld, "Int")]))
            for t in types:
                if t.name == qn:
                    t.fields.append(FieldDef("last" + tname, tname))
            docs[0][1].ops[0].sel = tuple(docs[0][1].ops[0].sel) + (Field("last" + tname, [Field(fld)]),)
            docs.append((kind[0].upper() + "shadow", Doc([Op(kind, "Op", [Field(fld)])])))
    schema = gql.Schema(types, roots, explicit=explicit, extensions=extensions)
    return schema, docs


def kind_grouped(schema):
    order = {"SCALAR": 0, "ENUM": 1, "INPUT_OBJECT": 2, "INTERFACE": 3, "UNION": 4, "OBJECT": 5}
    return sorted(schema.types, key=lambda n: order[schema.types[n].kind])  # stable: keeps order within a kind


def renderings(schema):
    """(name, ext, text, keeps definition order within each kind)"""
    names = list(schema.types)
    out = [
        ("sdl", "graphql", schema.sdl(), True),
        ("sdl.gql", "gql", schema.sdl(), True),
        ("sdl.graphqls", "graphqls", schema.sdl(), True),
        ("json", "json", schema.introspection(), True),
        ("json_wrapped", "json", schema.introspection(wrapped=True), True),
        ("json_no_builtins_with_meta", "json", schema.introspection(builtins=False, meta_types=True), True),
        ("sdl_grouped_by_kind", "graphql", schema.sdl(order=kind_grouped(schema)), True),
        ("json_grouped_by_kind", "json", schema.introspection(order=kind_grouped(schema)), True),
        ("sdl_builtin_scalars_declared", "graphql", "scalar ID\nscalar String\n" + schema.sdl() + "\nscalar Int\nscalar Float\nscalar Boolean\n", True),
        ("sdl_reversed", "graphql", schema.sdl(order=names[::-1]), False),
        ("json_reversed", "json", schema.introspection(order=names[::-1]), False),
    ]
    if schema.extensions:
        out.append(("sdl_extensions_folded", "graphql", schema.sdl(fold_extensions=True), True))
        out.append(("sdl_extensions_before_definitions", "graphql", schema.sdl(extensions_first=True), True))
        out.append(("sdl_extensions_before_definitions_reversed", "graphql", schema.sdl(order=names[::-1], extensions_first=True), False))
    return out


def canon_items(items):
    def canon(it):
        it = dict(it)
        if it["kind"] == "mod":
            it["items"] = sorted((canon(x) for x in it["items"]), key=lambda x: json.dumps(x, sort_keys=True))
        if it["kind"] == "enum":
            it["variants"] = sorted(it["variants"], key=lambda v: v["name"])
        if it["kind"] == "impl":
            # match arms of the hand-written enum (de)serialisers follow variant order
            it["items"] = [dict(x, body="".join(sorted(x.get("body", "").split("=>")))) if x.get("kind") == "fn" else x for x in it["items"]]
        return it
    return sorted((canon(x) for x in items), key=lambda x: json.dumps(x, sort_keys=True))


OPTION_SETS = [dict(DEFAULT_OPTS), dict(DEFAULT_OPTS, normalization="rust", other_variant=True, skip_none=True, deprecation="warn",
                                         response_derives="Serialize,Debug,Clone", variables_derives="Deserialize,Debug"),
               dict(DEFAULT_OPTS, deprecation="deny", custom_scalars_module="crate::scalars")]


def harvest(tier):
    """Schemas and operations of the *other* checks' input spaces (they feed the generator SDL only): the equivalence has to
    hold on them as well. Yields (description, schema, [(name, doc)])."""
    from checks import c10, c12, c16
    core = space.core_schema()
    docs = []
    for focus, labels, doc in space.operation_space("quick"):
        if len(labels) == 1 and not gql.validate(core, doc):
            docs.append(("%s %s #%d" % (focus, labels[0], len(docs)), doc))
    yield "CORE, every single-item operation of the operation space", core, docs
    vsets = c10.value_sets("quick")
    for vs in (vsets if tier == "thorough" else vsets[:11] + vsets[66:] ):
        schema, doc = c10.build(vs)
        yield "C10 enum " + ",".join(vs), schema, [("Q", doc)]
    exprs = gql.all_type_exprs("ID", 2)
    yield "C16 ID fields", c16.id_schema(exprs), [("%s i%d" % (pos, k), c16.op_for(pos, k)[0]) for k in range(len(exprs)) for pos in c16.POSITIONS]
    qdoc = Doc([Op("query", "Op", [Field("f", args=[("a", "$a")])], [("a", "In0", None)])])
    for n, edges, oneof in c12.enumerate_graphs("quick"):
        if n == 1 or (n == 2 and tier == "thorough" and not any(len(v) > 1 for v in edges.values())) or \
                (n == 2 and all(tuple(v) in ((), ("T",), ("[T]",)) for v in edges.values())):
            if c12.valid_oneof(n, edges, oneof):
                yield "C12 graph n=%d %s oneOf=%s" % (n, {"%d->%d" % k: v for k, v in edges.items() if v}, list(oneof)), c12.graph_schema(n, edges, oneof), [("Q", qdoc)]


def run(tier):
    rep = Report("C07", "model_checking", tier)
    k = 3 if tier == "quick" else 4
    subsets = [()]
    for n in range(1, k + 1):
        subsets += list(itertools.combinations(FEATURES, n))
    subsets.append(tuple(FEATURES))
    schemas = []
    seen = set()
    for fs in subsets:
        schema, docs = build(fs)
        key = schema.sdl()
        if key in seen:
            continue
        seen.add(key)
        schemas.append(("features " + "+".join(fs) if fs else "base", set(fs), schema, docs))
    core = space.core_schema()
    lib = space.fragment_library()
    csel = [Field("me", [Field("id"), Field("role"), Field("legacy"), Field("since"), Spread("UserA"),
                         Field("pet", [TN(), Inline("Cat", [Field("lives")]), Inline("Dog", [Field("good")])])]),
            Field("nodes", [TN(), Field("id"), Inline("Org", [Field("kind")]), Inline("Bot", [Field("version")])]),
            Field("search", [TN(), Field("id")], args=[("filter", "$f")])]
    schemas.append(("CORE", {"oneof", "iface"}, core, [("Q", Doc(space.used_fragments(csel, lib) + [Op("query", "Op", csel, [("f", "Filter", None)])]))]))
    n_lattice = len(schemas)
    for desc, schema, docs in harvest(tier):
        schemas.append(("harvest: " + desc, {"harvest"} | ({"oneof"} if any(t.one_of for t in schema.types.values()) else set()), schema, docs))
    jobs = []
    for si, (desc, fs, schema, docs) in enumerate(schemas):
        rends = renderings(schema)
        if "harvest" in fs:
            rends = [r for r in rends if r[0] in ("sdl", "json", "json_wrapped")]
        for dname, doc in docs:
            q = gql.render_doc(doc)
            for oi, opts in enumerate(OPTION_SETS if "harvest" not in fs else OPTION_SETS[:1]):
                for rname, ext, text, keeps in rends:
                    jobs.append({"si": si, "doc": dname, "oi": oi, "rendering": rname, "keeps": keeps,
                                 "req": gen_request(text, q, opts, ext=ext, inspect=not keeps), "query": q})
    log(f"[C07] {len(schemas)} schemas, {len(jobs)} generator calls")
    resps = generate([j["req"] for j in jobs], progress=20000)
    groups = {}
    for j, r in zip(jobs, resps):
        groups.setdefault((j["si"], j["doc"], j["oi"]), []).append((j, r))
    transitions = 0
    samples = []
    for (si, dname, oi), members in groups.items():
        desc, fs, schema, docs = schemas[si]
        ref_j, ref_r = members[0]
        label0 = {"schema": desc, "operation": dname, "option_set": oi, "sdl": schema.sdl() if len(schema.sdl()) < 2500 else "<long>",
                  "query": ref_j["query"]}
        if ref_r["status"] != "ok":
            # the SDL rendering refuses this operation (e.g. no root type of that kind): every other rendering of the
            # same schema has to refuse it too
            if not dname.endswith("shadow") and "harvest" not in fs:   # (whether a harvested input is supported is its own check's question)
                rep.violation("sdl_generation_failed", label0, ref_r.get("msg"))
            for j, r in members[1:]:
                transitions += 1
                if r["status"] == "ok":
                    rep.violation("rendering_accepts_what_sdl_rejects", dict(label0, rendering=j["rendering"]), ref_r.get("msg"))
            continue
        ref_items = None
        for j, r in members[1:]:
            transitions += 1
            label = dict(label0, rendering=j["rendering"])
            sigs = set()
            if "oneof" in fs and j["rendering"].startswith("json") and dname == "Q":
                sigs.add("schema_has_oneof_and_rendering_is_json")
            if r["status"] != "ok":
                rep.violation("rendering_rejected", label, r.get("msg") or r["status"], sigs)
                continue
            if j["keeps"]:
                if r["tokens"] != ref_r["tokens"]:
                    rep.violation("generated_code_differs", label, first_difference(ref_r["tokens"], r["tokens"]), sigs)
            else:
                if ref_items is None:
                    # need the reference's items: ask once more with inspect (same input, pure function)
                    rr = generate([dict(ref_j["req"], inspect=True)])[0]
                    ref_items = canon_items(rr["items"])
                if canon_items(r["items"]) != ref_items:
                    rep.violation("generated_code_differs_after_sorting", label, "items differ beyond order", sigs)
        if len(samples) < 2000:
            samples.append({"schema": desc, "operation": dname, "option_set": oi, "renderings": [j["rendering"] for j, _ in members]})
    cov = {
        "states": len(schemas), "lattice_schemas": n_lattice, "harvested_schemas": len(schemas) - n_lattice, "transitions": transitions, "traces_validated_against_impl": transitions,
        "evaluations": len(jobs), "distinct_nontrivial": len(schemas) - 1,
        "rule": "state = schema built from a subset of 20 constructs (interface+implementor, second implementor, union, enums, "
                "custom scalars, nested list/non-null types, deprecation with / without reason on objects and interfaces, "
                "recursive inputs, @oneOf, explicit schema block with non-default root names, mutation, subscription, extend "
                "type, argument defaults, deprecated enum values, field-less extend-implements, shadowed root names, type names with a leading underscore, several extension blocks of one type): all subsets of size <= %d, the full set, and CORE; transition "
                "= comparison of one rendering (3 SDL extensions, bare / wrapped JSON, JSON without built-ins but with __ types, "
                "kind-grouped and reversed type orders, folded extensions) with the SDL rendering, per covering operation "
                "(query / mutation / subscription) and option set (3); plus the schemas and operations harvested from the input spaces "
                "of C01 (CORE singles), C10 (enum definitions), C12 (small input graphs) and C16 (ID expressions), which those checks "
                "feed as SDL only: SDL vs bare / wrapped JSON" % k,
        "exhaustive": True,
        "samples": pick_samples(samples, 5),
    }
    return rep.finish(cov, ["for reversed type orders equality is demanded after sorting module items and enum variants (item order is not content)",
                            "JSON renderings carry isOneOf on input objects, as the CLI's --is-one-of introspection query asks for"])


def first_difference(a, b):
    i = 0
    while i < min(len(a), len(b)) and a[i] == b[i]:
        i += 1
    return {"at": i, "sdl": a[max(0, i - 80):i + 120], "other": b[max(0, i - 80):i + 120]}
