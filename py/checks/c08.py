"""C08 — codegen is a pure function of its inputs across calls, threads and processes.

Three exhaustive explorations of the real crate (hooks on), each comparing every call's outcome
with the outcome of the same call made alone in a fresh process:
  1. explicit-state BFS over call histories to the fixpoint of reachable cache states (state =
     canonical content of the two process-wide caches as reported by hook H1);
  2. all histories up to a length bound, without de-duplication (catches state the canonical form
     cannot see);
  3. preemption-bounded DFS over thread schedules (real threads, real mutex, baton scheduler whose
     scheduling points are the cache-lock acquisitions), one fresh process per schedule.
"""
import itertools
import json
import os
import shutil

import gql
import space
from gql import Field, Inline, Spread, TN, Op, Doc, FragDef
from common import (Report, pick_samples, log, WORK, VW, build_workers, run_process, parallel_map, base_env, Machinery)

TREE = os.path.join(WORK, "c08", "tree")

OPTS = {"mode": "cli", "response_derives": "Serialize", "variables_derives": "Deserialize"}


def make_tree():
    shutil.rmtree(os.path.dirname(TREE), ignore_errors=True)
    for d in ("dirA", "dirB", "dirC", "dirM", "inv", "bad"):
        os.makedirs(os.path.join(TREE, d))
    schema_a = space.core_schema()
    lib = space.fragment_library()
    sel = [Field("me", [Field("id"), Field("role"), Spread("UserA"), Field("pet", [TN(), Inline("Cat", [Field("lives")])])]),
           Field("search", [TN(), Field("id")], args=[("filter", "$f")]), Field("version"),
           # several enums / custom scalars / inputs in one module: their emission order must not depend on hash seeds
           Field("find", [TN(), Inline("http_error", [Field("code"), Field("stamp"), Field("order")]), Inline("User", [Field("since"), Field("role")])],
                 args=[("input", "$i")])]
    doc_a = Doc(space.used_fragments(sel, lib) + [Op("query", "Op", sel, [("f", "Filter", None), ("i", "search_input", None), ("p", "Pick", None)])])
    schema_b = gql.Schema([gql.obj("Q", [("version", "Int!"), ("me", "Who")]), gql.obj("Who", [("id", "Int!"), ("nick", "String")])],
                          {"query": "Q"})
    doc_b = Doc([Op("query", "Op", [Field("version"), Field("me", [Field("id"), Field("nick")])])])
    # dirC: the schema of dirB with `Who` turned into an interface: dirB's query still binds against it but fails the
    # `__typename` validation; inv/: a query that parses and binds against schema A but fails validation
    schema_c = gql.Schema([gql.obj("Q", [("version", "Int!"), ("me", "Who")]), gql.iface("Who", [("id", "Int!"), ("nick", "String")]),
                           gql.obj("W1", [("id", "Int!"), ("nick", "String")], ["Who"])], {"query": "Q"})
    doc_c = Doc([Op("query", "Op", [Field("version"), Field("me", [TN(), Field("id")])])])
    doc_inv = Doc([Op("query", "Op", [Field("version"), Field("node", [Field("id")])])])
    # dirM: one query file with two operations, expanded once per operation the way the derive macro does it
    doc_m = Doc([Op("query", "First", [Field("version"), Field("me", [Field("id"), Field("role")])]),
                 Op("query", "Second", [Field("count"), Field("node", [TN(), Field("id")])])])
    files = {
        "dirM/query.graphql": gql.render_doc(doc_m),
        "dirC/schema.graphql": schema_c.sdl(), "dirC/query.graphql": gql.render_doc(doc_c), "inv/query.graphql": gql.render_doc(doc_inv),
        "dirA/schema.graphql": schema_a.sdl(), "dirA/query.graphql": gql.render_doc(doc_a),
        "dirA/schema.json": schema_a.introspection(),
        "dirB/schema.graphql": schema_b.sdl(), "dirB/query.graphql": gql.render_doc(doc_b),
        "bad/query.graphql": "query Op { me { id ", "bad/schema.graphql": "type Q { version: ",
        "bad/schema.txt": schema_a.sdl(),
    }
    # many/: twelve small, pairwise different (schema, query) pairs - more distinct files than any fixed-size cache holds
    os.makedirs(os.path.join(TREE, "many"), exist_ok=True)
    for k in range(12):
        sch = gql.Schema([gql.obj("Q", [("version", "Int!"), ("mark%d" % k, "String")]), gql.enum("E%d" % k, ["A%d" % k, "B"])], {"query": "Q"})
        files["many/s%d.graphql" % k] = sch.sdl()
        files["many/q%d.graphql" % k] = gql.render_doc(Doc([Op("query", "Op%d" % k, [Field("version"), Field("mark%d" % k)])]))
    for rel, text in files.items():
        with open(os.path.join(TREE, rel), "w") as f:
            f.write(text)
    os.symlink("dirA", os.path.join(TREE, "linkA"))
    # two *different* files whose paths look alike after a lexical clean-up of `..`:
    #   <tree>/schema.graphql (= dirA's)   vs   <tree>/cur/../schema.graphql with cur -> dirB/sub (= dirB's)
    os.makedirs(os.path.join(TREE, "dirB", "sub"))
    os.symlink(os.path.join("dirB", "sub"), os.path.join(TREE, "cur"))
    for name in ("schema.graphql", "query.graphql"):
        with open(os.path.join(TREE, name), "w") as f:
            f.write(files["dirA/" + name])
    return files


def P(rel):
    return os.path.join(TREE, rel)


def alphabet(files):
    def call(schema, query=None, text=None, options=None):
        c = {"op": "gen", "schema_path": P(schema), "options": dict(OPTS, **(options or {})), "keep_after_panic": True,
             "tokens": False, "digest": True}
        if query is not None:
            c["query_path"] = P(query)
        else:
            c["query_text"] = text
        return c

    return {
        "A": call("dirA/schema.graphql", "dirA/query.graphql"),
        "A'": call("dirA/../dirA/schema.graphql", "linkA/query.graphql"),
        "B": call("dirB/schema.graphql", "dirB/query.graphql"),
        "AqBs": call("dirB/schema.graphql", "dirA/query.graphql"),
        "BqAs": call("dirA/schema.graphql", "dirB/query.graphql"),
        "invQ": call("dirA/schema.graphql", "inv/query.graphql"),
        "C": call("dirC/schema.graphql", "dirC/query.graphql"),
        "BqCs": call("dirC/schema.graphql", "dirB/query.graphql"),
        "M1": call("dirA/schema.graphql", "dirM/query.graphql", options={"mode": "derive", "struct_ident": "First", "operation_name": "First",
                                                                          "query_file": P("dirM/query.graphql"), "schema_file": P("dirA/schema.graphql")}),
        "M2": call("dirA/schema.graphql", "dirM/query.graphql", options={"mode": "derive", "struct_ident": "Second", "operation_name": "Second",
                                                                          "query_file": P("dirM/query.graphql"), "schema_file": P("dirA/schema.graphql")}),
        "missQ": call("dirA/schema.graphql", "dirA/nope.graphql"),
        **{"N%d" % k: call("many/s%d.graphql" % k, "many/q%d.graphql" % k) for k in range(12)},
        "badQ": call("dirA/schema.graphql", "bad/query.graphql"),
        "missS": call("dirA/nope.graphql", "dirA/query.graphql"),
        "badS": call("bad/schema.graphql", "dirA/query.graphql"),
        "extS": call("bad/schema.txt", "dirA/query.graphql"),
        "Root": call("schema.graphql", "query.graphql"),
        "BviaLink": call("cur/../schema.graphql", "cur/../query.graphql"),
        "Astr": call("dirA/schema.graphql", text=files["dirA/query.graphql"]),
        "Ajson": call("dirA/schema.json", "dirA/query.graphql"),
        "Aopt": call("dirA/schema.graphql", "dirA/query.graphql", options={"normalization": "rust", "other_variant": True,
                                                                            "deprecation": "deny", "skip_none": True}),
    }


def outcome(resp):
    st = resp.get("status")
    if st == "ok":
        return ("ok", resp.get("digest"))
    return (st, (resp.get("msg") or "").replace(TREE, "<tree>"))


def canon_state(caches):
    out = []
    for c in caches:
        out.append((c["name"], bool(c["poisoned"]), tuple((k.replace(TREE, "<tree>"), d) for k, d in c["entries"])))
    return tuple(out)


def run_history(calls):
    """One fresh worker process for the whole history. Returns [(outcome, state)] per call."""
    lines = []
    for i, c in enumerate(calls):
        lines.append(json.dumps(dict(c, id=i)))
        lines.append(json.dumps({"op": "cache_state", "id": "s%d" % i}))
    rc, out, err = run_process([VW, "serve"], stdin="\n".join(lines) + "\n", timeout=120)
    resps = [json.loads(l) for l in out.splitlines() if l.startswith("{")]
    if rc != 0 or len(resps) != 2 * len(calls):
        return {"died": True, "returncode": rc, "answers": len(resps), "stderr": (err or "")[-300:]}
    res = []
    for i in range(len(calls)):
        res.append((outcome(resps[2 * i]), canon_state(resps[2 * i + 1]["caches"])))
    return res


def history_sigs(names, idx, failing=("missQ", "badQ", "missS", "badS", "extS")):
    """Reference-model predicate for the known cache-poisoning defect: a loader panic precedes the call."""
    sigs = set()
    if any(n in failing for n in names[:idx]):
        sigs.add("history_contains_loader_panic_before_call")
    return sigs


def run(tier):
    rep = Report("C08", "model_checking", tier)
    build_workers()
    files = make_tree()
    sigma = alphabet(files)
    many = ["N%d" % k for k in range(12)]
    names = [n for n in sigma if n not in many]
    # ------------------------------------------------------------ solo outcomes (fresh process each, 3 times)
    solo = {}
    for n in names + many:
        seen = set()
        for _ in range(3):
            r = run_history([sigma[n]])
            if isinstance(r, dict):
                raise Machinery("solo run of %s died: %r" % (n, r))
            seen.add(r[0][0])
        if len(seen) != 1:
            rep.violation("solo_outcome_not_reproducible", {"call": n}, sorted(map(str, seen)))
        solo[n] = sorted(seen, key=str)[0]
    log("[C08] solo outcomes: " + ", ".join("%s=%s" % (n, solo[n][0]) for n in names + many[:1]))

    def check_history(hist, res, where):
        """Compare every call of the history with its solo outcome."""
        if isinstance(res, dict):
            rep.violation("process_died_in_history", {"history": hist}, res)
            return
        for i, (n, (out, _st)) in enumerate(zip(hist, res)):
            if out != solo[n]:
                rep.violation("outcome_depends_on_history", {"history": hist, "call_index": i, "call": n, "exploration": where},
                              {"in_history": out, "alone": solo[n]}, history_sigs(hist, i))

    # ------------------------------------------------------------ 1. BFS to the fixpoint of cache states
    init_state = canon_state(json.loads(run_process([VW, "serve"], stdin=json.dumps({"op": "cache_state"}) + "\n")[1].splitlines()[-1])["caches"])
    seen_states = {init_state: []}
    frontier = [[]]
    transitions = 0
    depth = 0
    max_states = 400 if tier == "quick" else 4000
    while frontier and len(seen_states) < max_states:
        depth += 1
        jobs = [h + [n] for h in frontier for n in names]
        results = parallel_map(lambda h: run_history([sigma[x] for x in h]), jobs)
        nxt = []
        for h, res in zip(jobs, results):
            transitions += 1
            check_history(h, res, "bfs")
            if isinstance(res, dict):
                continue
            st = res[-1][1]
            if st not in seen_states:
                seen_states[st] = h
                nxt.append(h)
        frontier = nxt
    fixpoint = not frontier
    if not fixpoint:
        rep.caps.append({"bfs_state_cap": max_states})
    log(f"[C08] BFS: {len(seen_states)} cache states, {transitions} transitions, depth {depth}, fixpoint={fixpoint}")
    # ------------------------------------------------------------ 2. all histories up to length L, no de-duplication
    L = 2 if tier == "quick" else 3
    core = names if tier == "thorough" else names
    hist_jobs = [list(h) for n in range(2, L + 1) for h in itertools.product(core, repeat=n)]
    if tier == "quick":
        # length 3 over the collision-relevant sub-alphabet
        sub = ["A", "A'", "B", "AqBs", "missQ", "badS", "Aopt", "Root", "BviaLink", "invQ", "C", "BqCs", "M1", "M2"]
        hist_jobs += [list(h) for h in itertools.product(sub, repeat=3)]
    else:
        sub = ["A", "A'", "B", "AqBs", "missQ", "badS", "Aopt", "invQ", "BqCs", "M1", "M2"]
        hist_jobs += [list(h) for h in itertools.product(sub, repeat=4)]
    # long histories over many distinct files: load them all (in several orders), then ask for each again - interleaved with
    # the ordinary calls; every answer must still be the solo one
    orders = [many, many[::-1], many[6:] + many[:6], many[::2] + many[1::2]]
    for o in orders:
        hist_jobs.append(list(o) + list(o))
        hist_jobs.append(list(o) + list(o[::-1]))
        hist_jobs.append(["A", "B"] + list(o) + ["A", "B", "A'"] + list(o[:4]))
        for cut in (8, 9, 10):
            hist_jobs.append(list(o[:cut]) + list(o[:cut]))
    hres = parallel_map(lambda h: run_history([sigma[x] for x in h]), hist_jobs)
    for h, res in zip(hist_jobs, hres):
        check_history(h, res, "unrolled")
    log(f"[C08] unrolled histories: {len(hist_jobs)}")
    # ------------------------------------------------------------ 3. schedules
    sched_alpha = ["A", "A'", "B", "missQ", "Root", "BviaLink", "invQ", "M1", "M2"]
    programs = []
    for a, b in itertools.product(sched_alpha, repeat=2):
        programs.append([[a], [b]])
    two = [["A", "B"], ["A'", "A"], ["B", "missQ"], ["missQ", "A"], ["A", "A"]]
    for p, q in itertools.product(two, repeat=2):
        programs.append([p, q])
    if tier == "thorough":
        for a, b, c in itertools.product(["A", "A'", "B", "missQ"], repeat=3):
            programs.append([[a], [b], [c]])
    bound = 2 if tier == "quick" else 3
    per_program_cap = 4000 if tier == "quick" else 60000   # (the unchanged tree needs at most a few hundred per program)
    schedules = 0
    sched_states = set()
    switches = 0
    replayed = 0

    def run_sched(prog, prefix):
        spec = {"threads": [[sigma[n] for n in t] for t in prog], "prefix": prefix}
        rc, out, err = run_process([VW, "sched", json.dumps(spec)], timeout=30)   # (an execution of the unchanged tree takes milliseconds)
        try:
            return json.loads(out.splitlines()[-1])
        except Exception:
            return {"status": "died", "returncode": rc, "stderr": (err or "")[-300:]}

    def explore(prog):
        nonlocal schedules, switches, replayed
        stack = [[]]
        found = False
        explored_here = 0
        while stack:
            if found:
                # a counterexample for this thread program is on record (the one with the fewest deviations comes
                # first); code that polls or retries under a lock makes the schedule space of a *broken* tree
                # unbounded, so the search of this program ends here instead of enumerating every variation of it
                break
            if explored_here >= per_program_cap:
                rep.caps.append({"schedules_per_thread_program_capped_at": per_program_cap, "program": prog})
                break
            batch, stack = stack[:256], stack[256:]
            explored_here += len(batch)
            results = parallel_map(lambda pf: run_sched(prog, pf), batch)
            for prefix, r in zip(batch, results):
                schedules += 1
                label = {"threads": prog, "prefix": prefix}
                if r.get("status") != "ok":
                    rep.violation("schedule_" + str(r.get("status")), label, {k: r.get(k) for k in ("error", "deadlock", "returncode", "stderr")})
                    found = True
                    continue
                logv = r["schedule"]
                choices = [s["choice"] for s in logv]
                if choices[:len(prefix)] != prefix:
                    rep.violation("schedule_divergence", label, choices)
                    continue
                if any(s["preempt"] or (s["at"] == "want_lock" and s["chosen"] != s["thread"]) for s in logv):
                    switches += 1
                sched_states.add(json.dumps([[s["thread"], s["chosen"], s["at"]] for s in logv]))
                anyfail = False
                for ti, (tprog, touts) in enumerate(zip(prog, r["results"])):
                    for ci, (n, resp) in enumerate(zip(tprog, touts)):
                        out = outcome(resp)
                        if out != solo[n]:
                            anyfail = True
                            found = True
                            sigs = set()
                            if any("missQ" in t for t in prog):
                                sigs.add("schedule_contains_loader_panic")
                            rep.violation("outcome_depends_on_schedule", dict(label, thread=ti, call_index=ci, call=n,
                                                                              schedule=[(s["thread"], s["chosen"]) for s in logv]),
                                          {"in_schedule": out, "alone": solo[n]}, sigs)
                if anyfail or schedules % 50 == 0:
                    r2 = run_sched(prog, choices)
                    replayed += 1
                    if r2.get("results") != r.get("results") or [s["choice"] for s in r2.get("schedule", [])] != choices:
                        rep.violation("schedule_replay_differs", label, "same schedule, different observation")
                pre = 0
                pre_before = []
                for s in logv:
                    pre_before.append(pre)
                    if s["preempt"]:
                        pre += 1
                for i in range(len(prefix), len(logv)):
                    s = logv[i]
                    for alt in range(1, len(s["enabled"])):
                        cost = pre_before[i] + (1 if (s["thread"] is not None and s["enabled"][0] == s["thread"]) else 0)
                        if cost <= bound:
                            stack.append(choices[:i] + [alt])

    for prog in programs:
        explore(prog)
    log(f"[C08] schedules: {schedules} over {len(programs)} thread programs (preemption bound {bound}), {len(sched_states)} distinct")
    # ------------------------------------------------------------ 4. sampling supplement: 16 free-running threads
    free_runs = 8 if tier == "quick" else 60
    free_calls = 0
    pool = ["A", "A'", "B", "AqBs", "BqAs", "missQ", "badS", "Astr", "Ajson", "Aopt", "invQ", "BqCs", "C", "M1", "M2"]

    def free_run(k):
        prog = [[pool[(k + t + i * 3) % len(pool)] for i in range(4)] for t in range(16)]
        spec = {"threads": [[sigma[n] for n in t] for t in prog], "free": True}
        rc, out, err = run_process([VW, "sched", json.dumps(spec)], timeout=120)
        try:
            return prog, json.loads(out.splitlines()[-1])
        except Exception:
            return prog, {"status": "died", "returncode": rc, "stderr": (err or "")[-300:]}
    for prog, r in parallel_map(free_run, list(range(free_runs)), nthreads=4):
        if r.get("status") != "ok":
            rep.violation("free_running_process_failed", {"threads": prog}, r)
            continue
        for ti, (tprog, touts) in enumerate(zip(prog, r["results"])):
            for ci, (n, resp) in enumerate(zip(tprog, touts)):
                free_calls += 1
                if outcome(resp) != solo[n]:
                    rep.violation("outcome_depends_on_schedule", {"threads": prog, "thread": ti, "call_index": ci, "call": n, "exploration": "16 free-running threads (sampling)"},
                                  {"in_run": outcome(resp), "alone": solo[n]})
    cov = {
        "states": len(seen_states) + len(sched_states),
        "transitions": transitions + sum(len(h) for h in hist_jobs) + schedules,
        "traces_validated_against_impl": transitions + len(hist_jobs) + schedules,
        "evaluations": transitions + len(hist_jobs) + schedules,
        "distinct_nontrivial": len(seen_states) + switches,
        "rule": "every explored state is a state of the real process: cache states are read through hook H1 after each "
                "call, schedules are executed by real threads over the real mutex. BFS: call alphabet of %d calls (valid "
                "pairs, same file by another path spelling, same base names in another directory, cross pairs, missing / "
                "unparsable / wrong-extension files, queries that parse and bind but fail validation (against their own and against a look-alike schema), from_string entry, JSON schema, other options); unrolled: all histories "
                "of length <= %d plus all length-%d histories over a 7-call sub-alphabet; schedules: %d thread programs, "
                "every schedule with <= %d preemptions. non-trivial = distinct cache states + schedules with at least one "
                "switch between lock points" % (len(names), L, 3 if tier == "quick" else 4, len(programs), bound),
        "cache_states": len(seen_states), "bfs_transitions": transitions, "bfs_depth": depth, "bfs_fixpoint_reached": fixpoint,
        "unrolled_histories": len(hist_jobs), "schedules": schedules, "schedules_distinct": len(sched_states),
        "schedules_with_switch": switches, "schedules_replayed": replayed, "preemption_bound": bound,
        "thread_programs": len(programs),
        "sampling_supplement_16_free_threads": {"processes": free_runs, "calls": free_calls, "note": "sampling, not part of the exhaustive claim"},
        "solo_outcomes": {n: solo[n][0] for n in names + many},
        "exhaustive": bool(fixpoint),
        "samples": [{"history": h} for h in pick_samples(hist_jobs, 3)] + [{"state_reached_by": v} for v in pick_samples(list(seen_states.values()), 3)]
                   + [{"threads": p} for p in pick_samples(programs, 2)],
    }
    return rep.finish(cov, ["scheduling points are the cache-lock acquisitions and thread start / end; code between two lock points "
                            "runs atomically under the baton (it touches no shared state, which exploration 1 and 2 check)",
                            "std RandomState hash seeds are not controlled: every solo outcome is computed in 3 fresh processes and must agree",
                            "2..3 threads, not 16: larger thread counts follow from the serialisation argument in DESIGN.md 4 C08"])
