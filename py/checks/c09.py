"""C09 — Rust-side options never change the JSON wire format.

Relational (metamorphic) check on compiled generated code: for collision-rich operations, every
wire-neutral option set within the deviation bound of the default (thorough: the full product) is
generated and compiled; every payload vector, every single-point corruption and every variables
assignment is run through each module; the triple (accepted?, re-serialised payload, serialised
variables) must be identical under every option set.
"""
import itertools
import json

import gql
import space
from gql import Field, Inline, Spread, Op, Doc, TN
from common import Report, pick_samples, log
from farm import Farm, Case
from genlib import gen_request, generate
from checks.c03 import corruptions
from checks.c04 import InputModel
from checks.c05 import camel
from genlib import snake

DIMS = [
    ("normalization", ["none", "rust"]),
    ("response_derives", ["Serialize", "Serialize,Debug,Clone,PartialEq", "Debug, Clone , Serialize"]),
    ("variables_derives", ["Deserialize", "Deserialize, Debug ,Clone,PartialEq"]),
    ("visibility", ["", "pub", "pub(crate)"]),
    ("custom_scalars_module", [None, "crate::scalars"]),
    ("serde_path", ["::serde", "graphql_client::_private::serde"]),
    ("extern_enums", [[], ["Role"]]),
]

# The options that are NOT wire-neutral are held fixed while the neutral ones vary; the property holds for every such
# setting, so the whole comparison is run under each of these.
BASES = [{}, {"skip_none": True, "other_variant": True, "deprecation": "allow"}]

EXTERN_ROLE = '''
#[derive(Debug, Clone, PartialEq)]
pub enum Role { ADMIN, member, guest_user, Other(String) }
impl serde::Serialize for Role {
    fn serialize<S: serde::Serializer>(&self, ser: S) -> Result<S::Ok, S::Error> {
        ser.serialize_str(match *self { Role::ADMIN => "ADMIN", Role::member => "member", Role::guest_user => "guest_user", Role::Other(ref s) => &s })
    }
}
impl<'de> serde::Deserialize<'de> for Role {
    fn deserialize<D: serde::Deserializer<'de>>(d: D) -> Result<Self, D::Error> {
        let s: String = serde::Deserialize::deserialize(d)?;
        match s.as_str() { "ADMIN" => Ok(Role::ADMIN), "member" => Ok(Role::member), "guest_user" => Ok(Role::guest_user), _ => Ok(Role::Other(s)) }
    }
}
'''


def operations(tier):
    lib = space.fragment_library()
    out = []
    sel1 = [Field("me", [Field("id"), Field("role"), Field("since"), Spread("UserB"),
                         Field("pet", [TN(), Inline("Cat", [Field("lives")])])]),
            Field("search", [TN(), Field("id"), Inline("Org", [Field("kind")])], args=[("filter", "$f"), ("first", "$first")]),
            Field("user", [Field("legacy"), Field("tags")], args=[("id", "$id")])]
    out.append(("query with enum, scalar, fragments, variables",
                Doc(space.used_fragments(sel1, lib) + [Op("query", "Op", sel1, [("f", "Filter", None), ("first", "Int", None), ("id", "ID!", None)])])))
    sel2 = [Field("rename", [Spread("UserRec"), Field("role")], args=[("id", "$id"), ("name", "$name")]), Field("touch")]
    out.append(("mutation with recursive fragment",
                Doc(space.used_fragments(sel2, lib) + [Op("mutation", "Op", sel2, [("id", "ID!", None), ("name", "String!", None), ("role", "Role", None)])])))
    sel3 = [Field("things", [TN(), Inline("Cat", [Field("lives")]), Inline("User", [Field("role"), Field("friends", [Field("since")])])]),
            Field("nodes", [TN(), Spread("NodeRec")]), Field("count")]
    out.append(("query over unions and interfaces",
                Doc(space.used_fragments(sel3, lib) + [Op("query", "Op", sel3, [("p", "Pick", None), ("r", "[Role!]", None)])])))
    sel5 = [Field("find", [TN(), Inline("http_error", [Field("code"), Field("stamp"), Field("order")]), Inline("User", [Field("name")])],
                  args=[("input", "$i")]),
            Field("outcomes", [TN(), Inline("http_error", [Field("code")])])]
    out.append(("query over types whose names are not CamelCase",
                Doc([Op("query", "Op", sel5, [("i", "search_input", None), ("o", "sort_order", None), ("t", "date_time", None)])])))
    # an operation whose name is not stable under the generator's own case conversion (the module is its snake_case
    # form; the struct follows the normalization; the name on the wire must stay the document's)
    sel6 = [Field("user", [Field("id"), Field("name"), Field("role")], args=[("id", "$id")])]
    out.append(("operation named lowerCamel_snake", Doc([Op("query", "lowerCamel_op", sel6, [("id", "ID!", None), ("r", "Role", None)])])))
    if tier == "thorough":
        sel4 = [Field("userChanged", [Field("role"), Field("since"), Field("friend", [TN(), Spread("NodeF")])])]
        out.append(("subscription", Doc(space.used_fragments(sel4, lib) + [Op("subscription", "Op", sel4, [("d", "Date", None)])])))
    return out


def option_sets(tier):
    default = tuple(0 for _ in DIMS)
    sets = [default]
    if tier == "thorough":
        sets = list(itertools.product(*[range(len(v)) for _, v in DIMS]))
    else:
        for i, (_, vals) in enumerate(DIMS):
            for a in range(1, len(vals)):
                s = list(default)
                s[i] = a
                sets.append(tuple(s))
        for (i, (_, vi)), (j, (_, vj)) in itertools.combinations(enumerate(DIMS), 2):
            for a in range(1, len(vi)):
                for b in range(1, len(vj)):
                    s = list(default)
                    s[i], s[j] = a, b
                    sets.append(tuple(s))
    return sets


DEFAULT_DERIVE = "Serialize,Debug,Default"   # only where the operation's types can derive Default at all


def opts_of(s):
    o = {"mode": "cli"}
    for (name, vals), idx in zip(DIMS, s):
        v = vals[idx] if idx >= 0 else DEFAULT_DERIVE
        if v is None:
            continue
        o[name] = v
    return o


DERIVE_LISTS = {
    "response_derives": [None, "Debug", "Clone, Debug ,PartialEq", "Serialize", "serde::Serialize", "Debug,Clone,Serialize,PartialEq"],
    "variables_derives": [None, "Debug", "Deserialize", "Debug, Clone, Deserialize", "serde::Deserialize", "Default"],
}


def shape(items):
    """Everything of the generated items except the derive lists (a derive list adds traits, nothing else)."""
    out = []
    for it in items:
        it = dict(it)
        if "attrs" in it:
            it["attrs"] = [a for a in it["attrs"] if a.get("path") != "derive"]
        if it.get("kind") == "mod":
            it["items"] = shape(it["items"])
        out.append(it)
    return out


def canon_out(text):
    val, conflicts = gql.loads_keep_duplicates(text)
    return json.dumps([val, [str(c) for c in conflicts]], sort_keys=True)


def run(tier):
    rep = Report("C09", "exploration", tier)
    schema = space.core_schema()
    sdl = schema.sdl()
    ops = operations(tier)
    sets = option_sets(tier)
    mods = []
    bases = BASES if tier == "quick" else BASES + [{"skip_none": True}, {"other_variant": True}]
    # breadth: every single-item operation of C01's operation space (the shapes those five operations do not have), under
    # the default set and the first alternative of every option dimension
    n_rich = len(ops)
    for focus, labels, doc in space.operation_space("quick"):
        if len(labels) == 1 and not gql.validate(schema, doc) and (tier == "thorough" or focus in ("F1q", "F2", "F3", "F4", "F6", "F8a")):
            ops.append(("single item %s %s" % (focus, labels[0]), doc))
    default_set = tuple(0 for _ in DIMS)
    narrow = [default_set] + [tuple(1 if j == i else 0 for j in range(len(DIMS))) for i in range(len(DIMS))]
    # `Default` among the response derives (index -1 in the response_derives dimension): judged where it compiles
    narrow.append(tuple(-1 if name == "response_derives" else 0 for name, _ in DIMS))
    for oi, (desc, doc) in enumerate(ops):
        for bi, base in enumerate(bases if oi < n_rich else bases[:1]):
            for s in (sets if oi < n_rich else narrow):
                mods.append({"oi": oi, "desc": desc, "doc": doc, "set": s, "base": bi, "opts": dict(opts_of(s), **base)})
    resps = generate([gen_request(sdl, gql.render_doc(m["doc"]), m["opts"]) for m in mods])
    # ---- token level: the two derive lists change nothing but `#[derive(..)]` - struct shapes (unit or braced), field
    # types and serde attributes are the same under every list, also for lists the compiled part cannot use (without
    # Serialize / Deserialize)
    shape_ops = [(d, doc) for d, doc in ops[:n_rich]] + [("operation without variables", Doc([Op("query", "Op", [Field("version"), Field("count")])]))]
    sreqs, smeta = [], []
    for desc, doc in shape_ops:
        for key, lists in DERIVE_LISTS.items():
            for lst in lists:
                o = {"mode": "cli"}
                if lst is not None:
                    o[key] = lst
                sreqs.append(gen_request(sdl, gql.render_doc(doc), o, inspect=True))
                smeta.append((desc, key, lst, doc))
    sres = generate(sreqs)
    ref_shape = {}
    shape_cmp = 0
    for (desc, key, lst, doc), r in zip(smeta, sres):
        if r["status"] != "ok" or "items" not in r:
            rep.violation("generation_failed", {"operation": desc, "options": {key: lst}, "query": gql.render_doc(doc)}, r.get("msg") or r.get("parse_error"))
            continue
        sh = json.dumps(shape(r["items"]), sort_keys=True)
        if desc not in ref_shape:
            ref_shape[desc] = sh
            continue
        shape_cmp += 1
        if sh != ref_shape[desc]:
            rep.violation("derive_list_changes_more_than_the_derives", {"operation": desc, "options": {key: lst}, "query": gql.render_doc(doc)},
                          "items differ beyond #[derive(..)] from the ones generated without extra derives")
    # ---- token level, the other wire-neutral options: each may change exactly one thing - visibility the `pub` of the
    # struct and its module, the serde path the path, the custom-scalars module the targets of the scalar aliases, extern
    # enums the presence of the enum's definition - and nothing else (field types, serde attributes, struct shapes)
    ALLOWED = [
        ("visibility", {"visibility": "pub(crate)"}),
        ("serde_path", {"serde_path": "graphql_client::_private::serde"}),
        ("custom_scalars_module", {"custom_scalars_module": "crate::scalars"}),
        ("extern_enums", {"extern_enums": ["Role"]}),
    ]

    def neutral(items, what):
        items = [dict(it) for it in items]
        if what == "visibility":
            for it in items:
                it["vis"] = ""
        if what == "extern_enums":
            def drop(its):
                out = []
                for it in its:
                    if it.get("kind") == "mod":
                        it = dict(it, items=drop(it["items"]))
                    elif (it.get("name") == "Role" and it.get("kind") == "enum") or (it.get("kind") == "impl" and it.get("self_ty") == "Role"):
                        continue
                    out.append(it)
                return out
            items = drop(items)
        text = json.dumps(items, sort_keys=True)
        text = text.replace("graphql_client :: _private :: serde", "serde").replace("graphql_client::_private::serde", "serde")
        text = text.replace(":: serde", "serde").replace("::serde", "serde")
        return text.replace("crate::scalars::", "super::").replace("crate :: scalars ::", "super ::")

    nreqs, nmeta = [], []
    for desc, doc in ops:
        q = gql.render_doc(doc)
        nreqs.append(gen_request(sdl, q, {"mode": "cli"}, inspect=True))
        nmeta.append((desc, None, q))
        for what, o in ALLOWED:
            nreqs.append(gen_request(sdl, q, dict({"mode": "cli"}, **o), inspect=True))
            nmeta.append((desc, what, q))
    nres = generate(nreqs)
    base_items = {}
    for (desc, what, q), r in zip(nmeta, nres):
        if r["status"] != "ok" or "items" not in r:
            continue   # (generation failures are reported by the compiled part below)
        if what is None:
            base_items[desc] = r["items"]
            continue
        if desc not in base_items:
            continue
        shape_cmp += 1
        if neutral(r["items"], what) != neutral(base_items[desc], what):
            rep.violation("option_changes_more_than_it_should", {"operation": desc, "option": what, "query": q},
                          "the generated items differ from the default ones in more than the %s" % what)
    farm = Farm("c09")
    for m, r in zip(mods, resps):
        m["label"] = {"operation": m["desc"], "options": {k: v for k, v in m["opts"].items() if k != "mode"}, "query": gql.render_doc(m["doc"])}
        if r["status"] != "ok":
            rep.violation("generation_failed", m["label"], r.get("msg"))
            m["case"] = None
            continue
        prelude = "pub type Date = String; pub type date_time = String; pub type DateTime = String;" if "custom_scalars_module" not in m["opts"] else ""
        if m["opts"].get("extern_enums"):
            prelude += EXTERN_ROLE
        opname = m["doc"].ops[0].name
        struct = opname if m["opts"].get("normalization", "none") == "none" else camel(opname)
        m["module"] = snake(opname)
        m["case"] = farm.add(Case(r["tokens"], [(m["module"], struct)], prelude=prelude))
    farm.build()
    model = InputModel(schema, max_depth=1)
    vectors = {}
    for oi, (desc, doc) in enumerate(ops):
        ex = gql.Executor(schema, doc)
        op = doc.ops[0]
        pl, bound = ex.payloads(op, full_cap=64, dev=2 if oi < n_rich else 1, dev_cap=800 if tier == "quick" else 3000)
        vs = [("payload", p) for _, _, p in pl]
        for kind, rpath, bad, expect in corruptions(ex, op, pl[0][2], enum_near_misses=True):
            vs.append(("corruption " + kind + " at " + rpath, bad))
        vars_ = [(v[0], gql.parse_type(v[1])) for v in op.vars]

        def build(ch, vars_=vars_):
            return {n: model.value(t, ch, n) for n, t in vars_}
        av = list(gql.explore_choices(build, 2, 1500))
        if len(av) >= 1500:
            av = list(gql.explore_choices(build, 1, 1500))
        vectors[oi] = (vs, [a for _, _, a in av], bound)
    default = tuple(0 for _ in DIMS)
    distinct = set()
    outcomes = {"same": 0, "different": 0}
    per = {}
    n_eval = 0
    by_op = {}
    for m in mods:
        if not m["case"]:
            continue
        if not farm.cases[m["case"]].compiles:
            if -1 not in m["set"]:   # (types with enums / unions cannot derive Default: the user's choice, not a defect)
                rep.violation("does_not_compile", m["label"], [(e["code"], e["message"][:150]) for e in farm.cases[m["case"]].errors[:2]])
            m["case"] = None
            continue
        by_op.setdefault(m["oi"], []).append(m)

    def observe(r):
        if r is None:
            return "none"
        return "ok:" + canon_out(r["out"]) if r.get("ok") else "rejected"

    # operations are evaluated in groups (bounded memory); within a group the modules of the default option set come
    # first, so every other observation is compared as soon as it arrives
    order = sorted(by_op)
    group, group_reqs = [], 0
    def run_group(ois):
        nonlocal n_eval
        reqs, meta = [], []
        for oi in ois:
            vs, av, _ = vectors[oi]
            for m in sorted(by_op[oi], key=lambda x: x["set"] != default):
                for i, (what, p) in enumerate(vs):
                    reqs.append({"case": m["case"], "module": m["module"], "what": "resp", "arg": p})
                    meta.append((m, "resp", i))
                for i, a in enumerate(av):
                    reqs.append({"case": m["case"], "module": m["module"], "what": "vars", "arg": a})
                    meta.append((m, "vars", i))
        n_eval += len(reqs)
        ref = {}
        for (m, kind, i), r in zip(meta, farm.run(reqs)):
            obs = observe(r)
            oi, s, bi = m["oi"], m["set"], m["base"]
            if s == default:
                ref[(oi, kind, i, bi)] = obs
                continue
            want = ref.get((oi, kind, i, bi))
            if want is None:
                continue
            distinct.add((oi, s, bi))
            if obs == want:
                outcomes["same"] += 1
                continue
            outcomes["different"] += 1
            vs, av, _ = vectors[oi]
            vec = vs[i] if kind == "resp" else ("assignment", av[i])
            key = (oi, s, kind, bi)
            per[key] = per.get(key, 0) + 1
            if per[key] <= 2:
                rep.violation("wire_format_depends_on_option", dict(m["label"], entry=kind, vector=vec),
                              {"under_default_options": want[:400], "under_these_options": obs[:400]})
    for oi in order:
        vs, av, _ = vectors[oi]
        n = (len(vs) + len(av)) * len(by_op[oi])
        if group and group_reqs + n > 400000:
            run_group(group)
            group, group_reqs = [], 0
        group.append(oi)
        group_reqs += n
    if group:
        run_group(group)
    log(f"[C09] {len(ops)} operations x {len(sets)} option sets = {len(mods)} modules, {n_eval} evaluations")
    cov = {
        "evaluations": n_eval, "distinct_nontrivial": len(distinct),
        "rule": "modules = %d operations x option sets (%s of normalization x response derives x variables derives x visibility "
                "x custom-scalars module x serde path x extern enums); vectors per operation = conforming payloads (deviation "
                "bound 2), every single-point corruption of the default payload, at every enum leaf every string that differs from a schema value only by letter case or is its Rust-style spelling, variables assignments (deviation bound 2, capped "
                "at 1500); each observation is compared with the same vector under the default option set; the whole comparison is "
                "repeated under each fixed setting of the non-neutral options (default; skip-none + other-variant + deprecated=allow; "
                "thorough also each alone). distinct = (operation, non-default option set, base setting)" % (len(ops), "the full product" if tier == "thorough" else "default + all single and pairwise deviations"),
        "operations": len(ops), "option_sets": len(sets), "modules": len(mods), "shape_comparisons": shape_cmp, "distinct_outcomes": outcomes,
        "vectors_per_operation": {ops[oi][0]: {"response_vectors": len(v[0]), "assignments": len(v[1])} for oi, v in vectors.items()},
        "exhaustive": tier == "thorough",
        "samples": pick_samples([m["label"]["options"] for m in mods], 6),
    }
    return rep.finish(cov, ["extern enums are supplied by the consumer with the serde behaviour the library would generate (README)",
                            "error texts are not compared (they name Rust types)"])
