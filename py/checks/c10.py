"""C10 — generated enums are open-world string bijections.

On compiled generated code: enum definitions whose value sets are drawn from a naming alphabet
(case styles, keywords, `Other`-lookalikes), reached from a response field, a variable and an input
field, x normalization {none, rust}; x a string alphabet (every schema value, case / underscore
near-misses, empty, blank, non-ASCII, long). Oracle: every string deserialises, serialises back to
itself; schema values map to their own (pairwise distinct, non-catch-all) variants; other strings
land in Other(s); non-strings are rejected.
"""
import itertools
import json

import gql
from gql import Field, Op, Doc, FieldDef
from common import Report, pick_samples, log
from farm import Farm, Case
from genlib import gen_request, generate
from checks.c05 import camel

BASE = ["UPPER", "lower", "mixedCase", "snake_case", "Other", "OTHER", "other", "_x", "x1", "Mixed_Snake", "A"]
KEYWORDS = ["Self", "abstract", "as", "async", "await", "become", "box", "break", "const", "continue", "crate", "do", "dyn",
            "else", "enum", "extern", "false", "final", "fn", "for", "if", "impl", "in", "let", "loop", "macro", "match", "mod",
            "move", "mut", "override", "priv", "pub", "ref", "return", "self", "static", "struct", "super", "trait", "true", "try",
            "type", "typeof", "union", "unsafe", "unsized", "use", "virtual", "where", "while", "yield"]


def value_sets(tier):
    sets = [[v] for v in BASE]
    sets += [list(p) for p in itertools.combinations(BASE, 2)]
    kws = KEYWORDS if tier == "thorough" else KEYWORDS
    sets += [[k, "UPPER"] for k in kws]
    sets += [["UPPER", "lower", "mixedCase", "snake_case"], ["type", "Type", "TYPE"], ["fn", "match", "self", "crate"],
             ["A", "a"], ["x1", "X1", "_x", "x"],
             # pairs whose order as wire strings differs from their order as Rust identifiers
             ["DONE", "INACTIVE", "IN_PROGRESS"], ["FOOD", "FOO_BAR"], ["in", "in2", "out"], ["type", "typeA"], ["b", "B_a", "Ba"]]
    if tier == "thorough":
        sets += [list(p) for p in itertools.combinations(BASE[:8], 3)]
    return sets


def strings_for(values):
    out = list(values)
    for v in values:
        for nm in (v.lower(), v.upper(), v.capitalize(), v + "_", "_" + v, v.replace("_", ""), camel(v), v + " ", v[:-1]):
            if nm not in out:
                out.append(nm)
    for s in ("", " ", "é", "Other", "other", "x" * 1024, "null", "0"):
        if s not in out:
            out.append(s)
    return out


def build(values, deprecated=()):
    # two more enums in the same module, declared before and after E (each enum must keep its own strings)
    schema = gql.Schema([
        gql.enum("Before", ["B_ONE", "B_TWO", "B_THREE", "B_FOUR", "B_FIVE", "B_SIX"]),
        gql.enum("E", [(v, ("gone",) if i % 2 == 0 else (None,)) if v in deprecated else v for i, v in enumerate(values)]),
        gql.enum("Zlast", ["Z_ONE", "Z_TWO"]),
        # (an input field with the first value as its schema default, a list of the enum on both sides)
        gql.inp("In", [("e", "E"), FieldDef("d", "E", default=values[0]), ("many", "[E!]")]),
        gql.obj("Q", [FieldDef("e", "E!"), FieldDef("es", "[E]"), FieldDef("f", "Int", args=[("a", "E"), ("i", "In"), ("l", "[E]")]),
                      FieldDef("before", "Before"), FieldDef("zlast", "Zlast")]),
    ], {"query": "Q"})
    doc = Doc([Op("query", "Op", [Field("e"), Field("es"), Field("f", args=[("a", "$a"), ("i", "$i"), ("l", "$l")]), Field("before"), Field("zlast")],
                  [("a", "E", None), ("i", "In", None), ("l", "[E]", None)])])
    return schema, doc


GLUE = '''        ("op", "dbg") => { let v: op::ResponseData = serde_json::from_value(arg).map_err(|e| e.to_string())?; Ok(format!("{:?}", v.e)) }
'''


def run(tier):
    rep = Report("C10", "exploration", tier)
    mods = []
    for vs in value_sets(tier):
        for normalization in ("none", "rust"):
            schema, doc = build(vs)
            mods.append({"values": vs, "norm": normalization, "schema": schema, "doc": doc})
            if len(vs) >= 2 and normalization == "none" or len(vs) >= 3:
                # deprecated VALUES are still values: under every strategy each keeps its own variant and its string
                for strat in ("deny", "warn", "allow"):
                    dschema, ddoc = build(vs, deprecated=(vs[0], vs[-1]))
                    mods.append({"values": vs, "norm": normalization, "schema": dschema, "doc": ddoc, "opts": {"deprecation": strat},
                                 "deprecated_values": [vs[0], vs[-1]]})
            if len(vs) != 2:
                # the string behaviour of an enum does not depend on the other options: more derives (enums get the union of
                # both lists), skip-none, other-variant, the schema as introspection JSON
                mods.append({"values": vs, "norm": normalization, "schema": schema, "doc": doc, "json": True,
                             "opts": {"response_derives": "Serialize,Debug,Clone,PartialEq,Eq,Hash", "variables_derives": "Deserialize,Debug,Clone,PartialEq",
                                      "skip_none": True, "other_variant": True}})
    resps = generate([gen_request(m["schema"].introspection() if m.get("json") else m["schema"].sdl(), gql.render_doc(m["doc"]),
                                  dict({"mode": "cli", "response_derives": "Serialize,Debug", "variables_derives": "Deserialize",
                                        "normalization": m["norm"]}, **m.get("opts", {})), ext="json" if m.get("json") else "graphql") for m in mods])
    farm = Farm("c10")
    for m, r in zip(mods, resps):
        m["label"] = {"enum_values": m["values"], "normalization": m["norm"], "options": m.get("opts", "default"), "deprecated_values": m.get("deprecated_values", []), "schema_format": "json" if m.get("json") else "sdl"}
        sigs = set()
        idents = [(camel(v) if m["norm"] == "rust" else v) for v in m["values"]]
        if any(i == "Other" for i in idents):
            sigs.add("enum_value_normalises_to_Other")
        if m["norm"] == "rust" and any(v in ("self", "Self") for v in m["values"]):
            sigs.add("enum_value_normalises_to_Self")
        if len(set(idents)) != len(idents):
            sigs.add("two_values_same_rust_identifier")  # outside the supported subset (not judged)
        m["sigs"] = sigs
        if r["status"] != "ok":
            if "two_values_same_rust_identifier" not in sigs:
                rep.violation("generation_failed", m["label"], r.get("msg"), sigs)
            m["case"] = None
            continue
        m["case"] = farm.add(Case(r["tokens"], [("op", "Op")], extra_glue=GLUE))
    farm.build()
    reqs, meta = [], []
    for m in mods:
        if not m["case"]:
            continue
        fc = farm.cases[m["case"]]
        if not fc.compiles:
            if "two_values_same_rust_identifier" not in m["sigs"]:
                rep.violation("does_not_compile", m["label"], [(e["code"], e["message"][:150]) for e in fc.errors[:2]], m["sigs"])
            continue
        for s in strings_for(m["values"]):
            reqs.append({"case": m["case"], "module": "op", "what": "resp", "arg": {"e": s, "es": [s, None, m["values"][0]]}})
            meta.append((m, "response", s))
            reqs.append({"case": m["case"], "module": "op", "what": "dbg", "arg": {"e": s}})
            meta.append((m, "debug", s))
            reqs.append({"case": m["case"], "module": "op", "what": "vars", "arg": {"a": s, "i": {"e": s, "d": s, "many": [s]}, "l": [s, None]}})
            meta.append((m, "variables", s))
        for s2, key in (("B_ONE", "before"), ("B_SIX", "before"), ("Z_ONE", "zlast"), ("Z_TWO", "zlast"), ("B_ONE", "zlast"), (m["values"][0], "before")):
            reqs.append({"case": m["case"], "module": "op", "what": "resp", "arg": {"e": m["values"][0], key: s2}})
            meta.append((m, "sibling_enum:" + key, s2))
        for bad in (1, True, None, ["UPPER"], {"a": 1}):
            reqs.append({"case": m["case"], "module": "op", "what": "resp", "arg": {"e": bad}})
            meta.append((m, "non_string", bad))
    log(f"[C10] {len(mods)} enum modules, {len(reqs)} evaluations")
    fres = farm.run(reqs)
    distinct = set()
    outcomes = {}
    debug_of = {}
    for (m, pos, s), r in zip(meta, fres):
        label = dict(m["label"], position=pos, string=s if not isinstance(s, str) or len(s) < 60 else s[:20] + "...(%d)" % len(s))
        distinct.add((tuple(m["values"]), m["norm"], bool(m.get("json")), pos, json.dumps(s)))
        ok = bool(r and r.get("ok"))
        outcomes[(pos, ok)] = outcomes.get((pos, ok), 0) + 1
        if pos == "non_string":
            if ok:
                rep.violation("non_string_accepted_as_enum", label, r.get("out"), m["sigs"])
            continue
        if not ok:
            rep.violation("string_rejected_by_enum", label, (r or {}).get("err"), m["sigs"])
            continue
        if pos.startswith("sibling_enum:"):
            got = json.loads(r["out"]).get(pos.split(":")[1])
            if got != s:
                rep.violation("enum_string_changed", label, {"serialised": got}, m["sigs"])
        elif pos == "response":
            o = json.loads(r["out"])
            got = o.get("e")
            if got != s or o.get("es") != [s, None, m["values"][0]]:
                rep.violation("enum_string_changed", label, {"serialised": got, "list": o.get("es")}, m["sigs"])
        elif pos == "variables":
            v = json.loads(r["out"])["variables"]
            i = v.get("i") or {}
            if v.get("a") != s or i.get("e") != s or i.get("d") != s or i.get("many") != [s] or v.get("l") != [s, None]:
                rep.violation("enum_string_changed", label, {"serialised": v}, m["sigs"])
        else:
            dbg = r["out"]
            is_schema = s in m["values"]
            if is_schema:
                debug_of.setdefault(id(m), {})[s] = dbg
                if dbg.startswith("Other("):
                    rep.violation("schema_value_lands_in_catch_all", label, dbg, m["sigs"])
            elif not dbg.startswith("Other("):
                rep.violation("unknown_string_not_in_catch_all", label, dbg, m["sigs"])
    for m in mods:
        d = debug_of.get(id(m), {})
        if len(set(d.values())) != len(d):
            rep.violation("two_schema_values_same_variant", m["label"], d, m["sigs"])
        # "its own variant": the variant a value lands in must not be the one that is named after ANOTHER value of the enum
        # (the user writes `E::InProgress` and means IN_PROGRESS). Names are predicted with the CamelCase model; only a
        # demonstrable swap is reported.
        if "two_values_same_rust_identifier" in m["sigs"]:
            continue
        ident = {}
        for v in m["values"]:
            i = camel(v) if m["norm"] == "rust" else v
            ident[v] = i + "_" if (i in KEYWORDS or i in ("Other", "Self")) else i
        for v, dbg in d.items():
            others = {ident[o] for o in m["values"] if o != v}
            if dbg != ident[v] and dbg in others:
                rep.violation("schema_value_lands_in_another_values_variant", dict(m["label"], value=v), {"variant": dbg, "own_variant": ident[v]}, m["sigs"])
    cov = {
        "evaluations": len(reqs), "distinct_nontrivial": len(distinct),
        "rule": "enum definitions = all singles and pairs over an 11-name style alphabet (incl. Other / OTHER / other), every "
                "keyword of the crate's list paired with UPPER, and mixed sets of 3-5; x normalization {none, rust}; each "
                "reached from a response field (E!), a variable and an input field; strings = every schema value, 9 near-misses "
                "of each (case, underscore, truncated, trailing blank), '', ' ', non-ASCII, 1 kB; plus 5 non-string JSON values. "
                "distinct = (enum definition, normalization, position, string)",
        "modules": len(mods), "distinct_outcomes": {"%s/%s" % k: v for k, v in sorted(outcomes.items())}, "exhaustive": False,
        "samples": pick_samples([m["label"] for m in mods], 8),
    }
    return rep.finish(cov, ["value sets in which two values map to the same Rust identifier under the chosen normalization are outside the supported subset and not judged"])
