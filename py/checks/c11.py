"""C11 — Rust keywords and naming conventions never reach the wire or break the build.

Finite space, enumerated completely: every strict / reserved / weak keyword of the 2015-2021
editions (the crate's own table plus the ones it may have missed), eight case styles and ten
non-keyword controls x six name positions (response field, alias, variable, input-object field,
@oneOf member, enum value); one generated module per (name, position), compiled and run. Oracle:
generation succeeds, the module compiles, and the JSON key / string observed on the wire is exactly
the GraphQL name.
"""
import json
import re

import gql
from gql import Field, Op, Doc, FieldDef
from common import Report, pick_samples, log
from farm import Farm, Case
from genlib import gen_request, generate, DEFAULT_OPTS

KEYWORDS = ["as", "break", "const", "continue", "crate", "else", "enum", "extern", "false", "fn", "for", "if", "impl", "in",
            "let", "loop", "match", "mod", "move", "mut", "pub", "ref", "return", "self", "Self", "static", "struct", "super",
            "trait", "true", "type", "unsafe", "use", "where", "while",          # strict, 2015
            "async", "await", "dyn",                                            # strict, 2018+
            "abstract", "become", "box", "do", "final", "macro", "override", "priv", "typeof", "unsized", "virtual", "yield",
            "try",                                                              # reserved
            "union", "gen"]                                                     # weak / 2024-reserved
STYLES = ["camelCase", "snake_case", "PascalCase", "SCREAMING_CASE", "_lead", "x1", "_1", "a_1b", "_", "__double", "trailing_",
          "mixed_Snake_Case", "ALLCAPS", "a",
          # acronym-style names: snake_case followed by a camelCase rule does not give them back
          "userID", "iOSVersion", "isHTML5", "HTTPServer", "aB"]
CONTROLS = ["name", "value", "fora", "types", "selfish", "Selfie", "asyncx", "tryit", "boxed", "matcher"]
POSITIONS = ["response_field", "alias", "variable", "input_field", "oneof_member", "enum_value", "id_field", "optional_id_alias",
             "alias_of_own_rust_name", "recursive_input_field", "object_field"]


def rust_field_name(name):
    """What the Rust field for this response key is (approximately) called: snake_case, then `_` appended to
    keywords. Only used to *construct* inputs (a schema field of that name, aliased as `name`), never as an oracle."""
    from genlib import snake
    sn = snake(name.strip("_")) if name.strip("_") else name
    return sn + "_" if sn in KEYWORDS else sn


ENUM_DBG_GLUE = '''        ("op", "dbg") => { let v: op::ResponseData = serde_json::from_value(arg).map_err(|e| e.to_string())?; Ok(format!("{:?}", v.e)) }
'''


def snake_ident_ok(name):
    """Does the name survive snake_case conversion as a Rust identifier? (reference side of finding 14)"""
    core = name.strip("_")
    return bool(core) and not core[0].isdigit()


def build(name, position):
    types = []
    vars_ = []
    sel = [Field("x")]
    qfields = [FieldDef("x", "Int")]
    if position == "response_field":
        qfields.append(FieldDef(name, "Int"))
        sel = [Field(name)]
    elif position == "alias":
        sel = [Field("x", alias=name)]
    elif position == "id_field":
        # ID fields get an extra serde attribute (the int-or-string helper): the rename must survive next to it
        qfields.append(FieldDef(name, "ID!"))
        sel = [Field(name)]
    elif position == "alias_of_own_rust_name":
        # the schema field is called what the Rust field of the alias is called: the key on the wire is still the alias
        qfields.append(FieldDef(rust_field_name(name), "Int"))
        sel = [Field(rust_field_name(name), alias=name)]
    elif position == "optional_id_alias":
        qfields.append(FieldDef("ident", "ID"))
        sel = [Field("ident", alias=name)]
    elif position == "variable":
        vars_ = [(name, "Int", None)]
    elif position == "input_field":
        types.append(gql.inp("In", [(name, "Int"), ("plain", "Int")]))
        vars_ = [("i", "In", None)]
    elif position == "object_field":
        # the name also becomes part of a generated TYPE name (the nested selection's struct)
        types.append(gql.obj("Sub", [("x", "Int")]))
        qfields.append(FieldDef(name, "[Sub!]"))
        sel = [Field(name, [Field("x")])]
    elif position == "recursive_input_field":
        # the field closes a cycle (it gets an indirection): escaping and indirection have to compose
        types.append(gql.inp("In", [(name, "In"), ("plain", "Int")]))
        vars_ = [("i", "In", None)]
    elif position == "oneof_member":
        types.append(gql.inp("Pick", [(name, "Int"), ("plainMember", "String")], one_of=True))
        vars_ = [("p", "Pick", None)]
    else:
        types.append(gql.enum("E", [name, "PLAIN_VALUE"]))
        qfields.append(FieldDef("e", "E!"))
        sel = [Field("e")]
    types.append(gql.obj("Q", qfields))
    return gql.Schema(types, {"query": "Q"}), Doc([Op("query", "Op", sel, vars_)])


def run(tier):
    rep = Report("C11", "exploration", tier)
    names = [(n, "keyword") for n in KEYWORDS] + [(n, "style") for n in STYLES] + [(n, "control") for n in CONTROLS]
    # keywords written in another case style: they become keywords only after the snake_case / CamelCase
    # conversion the generator applies at that position
    variants = []
    for k in KEYWORDS:
        forms = [k.capitalize(), "_" + k] if tier == "quick" else [k.capitalize(), k.upper(), "_" + k, k + "_", k[0].upper() + k[1:] + "X"[:0]]
        for f in forms:
            if f != k and f not in KEYWORDS and (f, "keyword_variant") not in variants:
                variants.append((f, "keyword_variant"))
    mods = []
    for name, klass in names + variants:
        for pos in (POSITIONS if klass != "keyword_variant" else (["variable", "input_field", "response_field", "id_field", "alias_of_own_rust_name", "recursive_input_field", "object_field"] if tier == "quick" else POSITIONS)):
            if pos == "enum_value" and name in ("true", "false", "null"):
                continue  # not GraphQL enum values
            if name.startswith("__") and pos in ("response_field", "input_field", "oneof_member", "enum_value", "id_field", "recursive_input_field", "object_field"):
                continue  # `__` names are reserved for introspection in schemas
            if pos == "alias_of_own_rust_name" and (rust_field_name(name) == name or not re.match(r"^[A-Za-z][A-Za-z0-9_]*$", rust_field_name(name))):
                continue  # nothing to tell apart
            schema, doc = build(name, pos)
            mods.append({"name": name, "class": klass, "pos": pos, "schema": schema, "doc": doc, "fmt": "sdl"})
            # names that live in the schema: the same module from the introspection-JSON rendering of the schema
            if pos in ("response_field", "id_field", "input_field", "oneof_member", "enum_value", "recursive_input_field") and (klass != "keyword_variant" or tier == "thorough"):
                mods.append({"name": name, "class": klass, "pos": pos, "schema": schema, "doc": doc, "fmt": "json"})
            # positions whose Rust identifier goes through the normalization: also under normalization = rust
            if pos in ("enum_value", "oneof_member", "variable", "input_field", "recursive_input_field"):
                mods.append({"name": name, "class": klass, "pos": pos, "schema": schema, "doc": doc, "fmt": "sdl", "norm": "rust"})
    resps = generate([gen_request(m["schema"].sdl() if m["fmt"] == "sdl" else m["schema"].introspection(), gql.render_doc(m["doc"]), dict(DEFAULT_OPTS, normalization=m.get("norm", "none"), **({"response_derives": "Serialize,Debug"} if m["pos"] == "enum_value" else {})),
                                  ext="graphql" if m["fmt"] == "sdl" else "json") for m in mods])
    farm = Farm("c11")
    for m, r in zip(mods, resps):
        m["label"] = {"name": m["name"], "class": m["class"], "position": m["pos"], "schema_format": m["fmt"], "normalization": m.get("norm", "none"), "schema": m["schema"].sdl(), "query": gql.render_doc(m["doc"])}
        sigs = set()
        if m["pos"] != "enum_value" and not snake_ident_ok(m["name"]):
            sigs.add("snake_case_not_an_identifier")
        if m["pos"] == "enum_value" and (m["name"] == "_" or (m.get("norm") == "rust" and not snake_ident_ok(m["name"]))):
            sigs.add("snake_case_not_an_identifier")  # (enum values are CamelCased under normalization = rust: same defect)
        if m["pos"] == "oneof_member" and m["name"] == "Self":
            sigs.add("oneof_member_is_keyword_after_camel_case")
        m["sigs"] = sigs
        if r["status"] != "ok":
            rep.violation("generation_failed", m["label"], (r.get("msg") or r["status"])[:300], sigs)
            m["case"] = None
            continue
        m["case"] = farm.add(Case(r["tokens"], [("op", "Op")], extra_glue=ENUM_DBG_GLUE if m["pos"] == "enum_value" else ""))
    farm.build()
    reqs, meta = [], []
    for m in mods:
        if not m["case"]:
            continue
        fc = farm.cases[m["case"]]
        if not fc.compiles:
            rep.violation("does_not_compile", m["label"], [(e["code"], e["message"][:150]) for e in fc.errors[:2]], m["sigs"])
            continue
        n = m["name"]
        if m["pos"] in ("response_field", "alias", "alias_of_own_rust_name"):
            reqs.append({"case": m["case"], "module": "op", "what": "resp", "arg": {n: 7}})
        elif m["pos"] in ("id_field", "optional_id_alias"):
            reqs.append({"case": m["case"], "module": "op", "what": "resp", "arg": {n: "k7"}})
        elif m["pos"] == "variable":
            reqs.append({"case": m["case"], "module": "op", "what": "vars", "arg": {n: 7}})
        elif m["pos"] == "input_field":
            reqs.append({"case": m["case"], "module": "op", "what": "vars", "arg": {"i": {n: 7, "plain": 1}}})
        elif m["pos"] == "object_field":
            reqs.append({"case": m["case"], "module": "op", "what": "resp", "arg": {n: [{"x": 1}]}})
        elif m["pos"] == "recursive_input_field":
            reqs.append({"case": m["case"], "module": "op", "what": "vars", "arg": {"i": {n: {"plain": 1}, "plain": 2}}})
        elif m["pos"] == "oneof_member":
            reqs.append({"case": m["case"], "module": "op", "what": "vars", "arg": {"p": {n: 7}}})
        else:
            reqs.append({"case": m["case"], "module": "op", "what": "resp", "arg": {"e": n}})
            meta.append(m)
            # (a round trip alone cannot tell the value's own variant from the catch-all, which keeps any string)
            reqs.append({"case": m["case"], "module": "op", "what": "dbg", "arg": {"e": n}})
            meta.append(dict(m, dbg=True))
            continue
        meta.append(m)
    fres = farm.run(reqs)
    outcomes = {}
    for m, r, q in zip(meta, fres, reqs):
        n = m["name"]
        if not r or not r.get("ok"):
            outcomes["rejected"] = outcomes.get("rejected", 0) + 1
            rep.violation("graphql_name_not_accepted_on_the_wire", dict(m["label"], payload=q["arg"]), (r or {}).get("err"), m["sigs"])
            continue
        if m.get("dbg"):
            if r["out"].startswith("Other("):
                rep.violation("wire_name_differs_from_graphql_name", dict(m["label"], payload=q["arg"]),
                              "the enum value's GraphQL name is not the string of its variant: it lands in the catch-all %s" % r["out"], m["sigs"])
            continue
        out = json.loads(r["out"])
        if m["pos"] in ("response_field", "alias", "alias_of_own_rust_name"):
            good = out == {n: 7}
        elif m["pos"] in ("id_field", "optional_id_alias"):
            good = out == {n: "k7"}
        elif m["pos"] == "variable":
            good = out.get("variables") == {n: 7}
        elif m["pos"] == "input_field":
            good = out.get("variables") == {"i": {n: 7, "plain": 1}}
        elif m["pos"] == "object_field":
            good = out == {n: [{"x": 1}]}
        elif m["pos"] == "recursive_input_field":
            good = out.get("variables") == {"i": {n: {n: None, "plain": 1}, "plain": 2}}
        elif m["pos"] == "oneof_member":
            good = out.get("variables") == {"p": {n: 7}}
        else:
            good = out == {"e": n}
        outcomes["exact" if good else "changed"] = outcomes.get("exact" if good else "changed", 0) + 1
        if not good:
            rep.violation("wire_name_differs_from_graphql_name", dict(m["label"], payload=q["arg"]), r["out"], m["sigs"])
    cov = {
        "evaluations": len(mods) + len(reqs), "distinct_nontrivial": sum(1 for m in mods if m["class"] != "control"),
        "rule": "one generated module per (name, position): %d keywords (strict, reserved and weak, editions 2015-2024), %d case "
                "styles, %d non-keyword controls x 11 positions (object-typed list field, recursive input field, response field, alias, alias of the field that is named like the alias's own Rust field, variable, input field, @oneOf member, enum value, ID-typed field, alias of an optional ID; minus combinations GraphQL itself forbids; the positions whose name lives in the schema also with the schema rendered as introspection JSON), plus every keyword in "
                "other case styles (Capitalised, _leading; thorough also UPPER and trailing_) at the positions that snake_case it; every module is "
                "compiled and one value is sent through the named position; non-trivial = keyword or style names" %
                (len(KEYWORDS), len(STYLES), len(CONTROLS)),
        "modules": len(mods), "distinct_outcomes": outcomes, "exhaustive": True,
        "samples": pick_samples([{k: m["label"][k] for k in ("name", "position", "schema_format")} for m in mods], 8),
    }
    return rep.finish(cov, ["one special name per generated module (two names mapping to one Rust identifier are outside the supported subset)"])
