"""C12 — recursive input types and fragments get finite-size Rust types.

Model = finite-size rule on the emitted items: a type has infinite size iff the by-value
containment graph (through Option; cut by Vec and Box) has a cycle. States = labelled digraphs of
input object types (all graphs within the bounds below) and fragment-recursion patterns; each is
run through the real generator and the model is evaluated on the emitted tokens. Conformance: a
covering subset is compiled, rustc's verdict (E0072 or clean) must agree with the model in both
directions - the 'infinite' direction is exercised by twins whose Box wrappers were stripped - and
recursive values round-trip through `Variables` with JSON that shows no trace of the Box.
"""
import itertools
import json
import re

import gql
from gql import Field, Inline, Spread, FragDef, Op, Doc, TN
from common import Report, pick_samples, log, run_cases, scratch_file
from farm import Farm, Case
from genlib import gen_request, generate, DEFAULT_OPTS

KINDS = {"-": None, "T": "%s", "T!": "%s!", "[T]": "[%s]", "[T!]!": "[%s!]!", "[T!]": "[%s!]"}


NAMINGS = {
    "plain": lambda j, k: "e%d_%d" % (j, k),
    # names whose Rust identifier differs from the GraphQL name: keywords, camelCase, leading underscore
    "keyword": lambda j, k: ["else", "where", "super", "type", "loop", "match"][(2 * j + k) % 6],
    "camel": lambda j, k: "linkTo%d%s" % (j, "ab"[k % 2]),
    "underscore": lambda j, k: "_not%d_%d" % (j, k),
}


def graph_sdl(n, edges, oneof, naming="plain", tname="In%d"):
    """edges: dict (i, j) -> list of kind names; oneof: tuple of bools; tname: pattern of the input type names."""
    parts = ["schema { query: Q }", "type Q { f(a: %s): Int }" % (tname % 0)]
    for i in range(n):
        fields = ["v: Int"]
        for j in range(n):
            for k, kind in enumerate(edges.get((i, j), [])):
                fields.append("%s: %s" % (NAMINGS[naming](j, k), KINDS[kind] % (tname % j)))
        parts.append("input %s%s { %s }" % (tname % i, " @oneOf" if oneof[i] else "", " ".join(fields)))
    return "\n".join(parts) + "\n"


def graph_schema(n, edges, oneof):
    """The same schema as graph_sdl, as a reference-model object (so that it can also be rendered as JSON)."""
    types = [gql.obj("Q", [gql.FieldDef("f", "Int", args=[("a", "In0")])])]
    for i in range(n):
        fields = [("v", "Int")]
        for j in range(n):
            for k, kind in enumerate(edges.get((i, j), [])):
                fields.append(("e%d_%d" % (j, k), KINDS[kind] % ("In%d" % j)))
        types.append(gql.inp("In%d" % i, fields, one_of=oneof[i]))
    return gql.Schema(types, {"query": "Q"}, explicit=True)


def enumerate_graphs(tier):
    out = []
    base5 = ["-", "T", "T!", "[T]", "[T!]!"]
    singles = [[k] for k in base5 if k != "-"]
    # two fields on one ordered pair, in both declaration orders (the generator walks fields in order)
    doubles = [[a, b] for a, b in itertools.product([k for k in base5 if k != "-"], repeat=2)]
    # n = 1: none / one / two self edges
    for opt in [[]] + singles + doubles:
        for oo in (False, True):
            out.append((1, {(0, 0): opt}, (oo,)))
    # n = 2: every assignment of one edge kind per ordered pair x every @oneOf assignment
    pairs2 = [(0, 0), (0, 1), (1, 0), (1, 1)]
    for ks in itertools.product(base5, repeat=4):
        for oo in itertools.product((False, True), repeat=2):
            out.append((2, {p: ([k] if k != "-" else []) for p, k in zip(pairs2, ks)}, oo))
    # n = 2 with two fields on 0->1 or 1->0
    for dbl in doubles:
        for ks in itertools.product(base5, repeat=3):
            out.append((2, {(0, 1): dbl, (0, 0): [ks[0]] if ks[0] != "-" else [], (1, 0): [ks[1]] if ks[1] != "-" else [],
                            (1, 1): [ks[2]] if ks[2] != "-" else []}, (False, False)))
    # n = 3
    kinds3 = ["-", "T", "[T!]"] if tier == "quick" else ["-", "T", "T!", "[T!]"]
    pairs3 = [(i, j) for i in range(3) for j in range(3)]
    for ks in itertools.product(kinds3, repeat=9):
        out.append((3, {p: ([k] if k != "-" else []) for p, k in zip(pairs3, ks)}, (False, False, False)))
    # n = 4: rings and rings with one chord, every edge kind
    for ks in itertools.product(["T", "T!", "[T]", "[T!]!"], repeat=4):
        ring = {(i, (i + 1) % 4): [ks[i]] for i in range(4)}
        out.append((4, ring, (False,) * 4))
        for chord in ((0, 2), (2, 0), (1, 3)):
            for ck in ("T", "T!"):
                e = dict(ring)
                e[chord] = [ck]
                out.append((4, e, (False,) * 4))
    return out


def valid_oneof(n, edges, oneof):
    for (i, j), ks in edges.items():
        if oneof[i] and any(k.endswith("!") for k in ks):
            return False
    return True


def has_cycle(edges_json):
    """Finite-size rule: cycle in the by-value containment graph."""
    graph = {name: [e[1] for e in es if e[2] == "value"] for name, es in edges_json.items()}
    color = {}

    def dfs(u, path):
        color[u] = 1
        for v in graph.get(u, []):
            if v not in graph:
                continue
            if color.get(v) == 1:
                return path + [u, v]
            if color.get(v) is None:
                r = dfs(v, path + [u])
                if r:
                    return r
        color[u] = 2
        return None

    for u in graph:
        if color.get(u) is None:
            r = dfs(u, [])
            if r:
                return r
    return None


def graph_has_value_cycle(n, edges):
    """Does the *GraphQL* graph have a cycle that avoids list edges? (reference side)"""
    adj = {i: set() for i in range(n)}
    for (i, j), ks in edges.items():
        if any(not k.startswith("[") for k in ks):
            adj[i].add(j)
    reach = {i: set(adj[i]) for i in range(n)}
    for _ in range(n):
        for i in range(n):
            for j in list(reach[i]):
                reach[i] |= reach[j]
    return any(i in reach[i] for i in range(n))


def strip_boxes(tokens):
    """Twin of a token stream with every `Box < X >` replaced by `X`."""
    out = tokens
    while True:
        m = re.search(r"\bBox\s*<", out)
        if not m:
            return out
        i = m.end()
        depth = 1
        while i < len(out) and depth:
            if out[i] == "<":
                depth += 1
            elif out[i] == ">":
                depth -= 1
            i += 1
        out = out[:m.start()] + out[m.end():i - 1] + out[i:]


def input_value(n, edges, oneof, i, depth):
    """A valid value of In_i with recursion depth `depth` (None members where it has to end)."""
    if oneof[i]:
        for j in range(n):
            for k, kind in enumerate(edges.get((i, j), [])):
                if depth > 0:
                    inner = input_value(n, edges, oneof, j, depth - 1)
                    if inner is None:
                        if kind.startswith("["):
                            return {"e%d_%d" % (j, k): []}
                        continue  # this member cannot be given a finite value here: pick another one
                    return {"e%d_%d" % (j, k): [inner] if kind.startswith("[") else inner}
        return {"v": 1}
    v = {"v": depth}
    for j in range(n):
        for k, kind in enumerate(edges.get((i, j), [])):
            key = "e%d_%d" % (j, k)
            if kind.startswith("["):
                inner = input_value(n, edges, oneof, j, depth - 1) if depth > 0 else None
                v[key] = [inner] if inner is not None else []
            elif kind.endswith("!"):
                if depth <= 0:
                    return None  # cannot terminate a required by-value cycle here
                inner = input_value(n, edges, oneof, j, depth - 1)
                if inner is None:
                    return None
                v[key] = inner
            else:
                v[key] = input_value(n, edges, oneof, j, depth - 1) if depth > 0 else None  # nullable: None is a value
    return v


REC_SCHEMA = gql.Schema([
    gql.iface("I", [("id", "ID!")]),
    gql.obj("R", [("id", "ID!"), ("next", "R"), ("nn", "R!"), ("list", "[R!]!"), ("inode", "I"), ("other", "R")], ["I"]),
    gql.obj("X", [("id", "ID!")], ["I"]),
    gql.obj("Q", [("r", "R"), ("i", "I")]),
], {"query": "Q"})


def fragment_patterns():
    P = []

    def q(frags, root="F"):
        return Doc(frags + [Op("query", "Op", [Field("r", [Spread(root)])])])

    P.append(("self via nullable field, alias form", q([FragDef("F", "R", [Field("id"), Field("next", [Spread("F")])])])))
    P.append(("self via nullable field, among others", q([FragDef("F", "R", [Field("id"), Field("next", [Field("id"), Spread("F")])])])))
    P.append(("self via non-null field", q([FragDef("F", "R", [Field("id"), Field("nn", [Spread("F")])])])))
    P.append(("self via list", q([FragDef("F", "R", [Field("id"), Field("list", [Spread("F")])])])))
    P.append(("self via list, among others", q([FragDef("F", "R", [Field("id"), Field("list", [Field("id"), Spread("F")])])])))
    P.append(("self via inline fragment on interface field", q([FragDef("F", "R", [Field("id"), Field("inode", [TN(), Inline("R", [Spread("F")])])])])))
    P.append(("self via variant spread on interface field", q([FragDef("F", "R", [Field("id"), Field("inode", [TN(), Spread("F")])])])))
    P.append(("self twice", q([FragDef("F", "R", [Field("id"), Field("next", [Spread("F")]), Field("other", [Field("id"), Spread("F")])])])))
    P.append(("mutual F-G via fields, alias form", q([FragDef("F", "R", [Field("id"), Field("next", [Spread("G")])]),
                                                       FragDef("G", "R", [Field("id"), Field("next", [Spread("F")])])])))
    P.append(("mutual F-G via fields, among others", q([FragDef("F", "R", [Field("id"), Field("next", [Field("id"), Spread("G")])]),
                                                         FragDef("G", "R", [Field("id"), Field("next", [Field("id"), Spread("F")])])])))
    P.append(("mutual F-G via lists", q([FragDef("F", "R", [Field("id"), Field("list", [Spread("G")])]),
                                          FragDef("G", "R", [Field("id"), Field("list", [Spread("F")])])])))
    P.append(("three-cycle F-G-H", q([FragDef("F", "R", [Field("id"), Field("next", [Spread("G")])]),
                                       FragDef("G", "R", [Field("id"), Field("next", [Spread("H")])]),
                                       FragDef("H", "R", [Field("id"), Field("next", [Spread("F")])])])))
    P.append(("mutual through an interface fragment", Doc([
        FragDef("FI", "I", [TN(), Field("id"), Inline("R", [Field("next", [Spread("FR")])])]),
        FragDef("FR", "R", [Field("id"), Field("inode", [Spread("FI")])]),
        Op("query", "Op", [Field("i", [Spread("FI")])])])))
    # recursion whose first step is not a top-level *field* of the fragment
    P.append(("self, starting in a top-level inline fragment of an interface fragment", Doc([
        FragDef("NT", "I", [TN(), Field("id"), Inline("R", [Field("inode", [Spread("NT")])])]),
        Op("query", "Op", [Field("i", [Spread("NT")])])])))
    P.append(("self, starting in a top-level inline fragment on the own type", q([
        FragDef("F", "R", [Field("id"), Inline("R", [Field("next", [Spread("F")])])])])))
    P.append(("mutual, one step is a top-level spread", q([
        FragDef("F", "R", [Spread("G")]), FragDef("G", "R", [Field("id"), Field("next", [Spread("F")])])])))
    P.append(("mutual, top-level spread then top-level inline fragment", Doc([
        FragDef("A", "I", [TN(), Spread("B")]), FragDef("B", "I", [TN(), Field("id"), Inline("R", [Field("inode", [Spread("A")])])]),
        Op("query", "Op", [Field("i", [Spread("A")])])])))
    # the recursive spread next to other selections of every kind (a list-typed object field before / after it, a
    # scalar, another spread): whether the spread is boxed must not depend on its siblings
    P.append(("self, a list-typed sibling before the spread", q([FragDef("F", "R", [Field("id"), Field("next", [Field("list", [Field("id")]), Spread("F")])])])))
    P.append(("self, a list-typed sibling after the spread", q([FragDef("F", "R", [Field("id"), Field("next", [Spread("F"), Field("list", [Field("id")])])])])))
    P.append(("self, nullable-object sibling before the spread", q([FragDef("F", "R", [Field("id"), Field("nn", [Field("other", [Field("id")]), Spread("F")])])])))
    P.append(("self behind a list, non-list sibling before the spread", q([FragDef("F", "R", [Field("id"), Field("list", [Field("next", [Field("id")]), Spread("F")])])])))
    P.append(("self in a variant, list sibling before the spread", q([FragDef("F", "R", [Field("id"), Field("inode", [TN(), Inline("R", [Field("list", [Field("id")]), Spread("F")])])])])))
    P.append(("self, list sibling at the fragment's top level before the recursive field", q([FragDef("F", "R", [Field("list", [Field("id")]), Field("next", [Field("id"), Spread("F")])])])))
    P.append(("mutual, list siblings before both spreads", q([FragDef("F", "R", [Field("id"), Field("next", [Field("list", [Field("id")]), Spread("G")])]),
                                                            FragDef("G", "R", [Field("id"), Field("other", [Field("list", [Field("id")]), Spread("F")])])])))
    P.append(("non-recursive control", q([FragDef("F", "R", [Field("id"), Field("next", [Spread("G")])]),
                                           FragDef("G", "R", [Field("id")])])))
    return P


def fragment_cycle_len(doc):
    """Length of the shortest spread cycle among named fragments (through any depth of fields)."""
    frags = doc.frags

    def spreads(sel):
        out = set()
        for s in sel:
            if isinstance(s, Spread):
                out.add(s.name)
            elif s.sel:
                out |= spreads(s.sel)
        return out

    g = {n: spreads(f.sel) for n, f in frags.items()}
    best = None
    for start in g:
        frontier, dist, seen = {start}, 0, set()
        while frontier:
            dist += 1
            nxt = set()
            for u in frontier:
                for v in g.get(u, ()):
                    if v == start:
                        best = dist if best is None else min(best, dist)
                    if v not in seen:
                        seen.add(v)
                        nxt.add(v)
            frontier = nxt
            if best is not None and dist >= best:
                break
    return best


def run(tier):
    rep = Report("C12", "model_checking", tier)
    graphs = [g for g in enumerate_graphs(tier) if valid_oneof(*g)]
    query = "query Op($a: In0) { f(a: $a) }\n"
    reqs = []
    for n, edges, oneof in graphs:
        reqs.append({"op": "gen", "schema_path": scratch_file(graph_sdl(n, edges, oneof), "graphql", "c12"), "query_text": query,
                     "options": DEFAULT_OPTS, "tokens": False, "edges": True})
    # the small graphs once more under other options and from the JSON form of the schema (where the indirection
    # goes must depend on neither)
    n_default = len(graphs)
    variant_of = {}
    ALT = dict(DEFAULT_OPTS, normalization="rust", skip_none=True, variables_derives="Deserialize,Debug,Clone,PartialEq")
    SKIP = dict(DEFAULT_OPTS, skip_none=True)
    skip_idx = []
    for n, edges, oneof in list(graphs):
        if n <= 2 and not any(len(v) > 1 for v in edges.values()):
            variant_of[len(graphs)] = "other options"
            graphs.append((n, edges, oneof))
            reqs.append({"op": "gen", "schema_path": scratch_file(graph_sdl(n, edges, oneof), "graphql", "c12"), "query_text": query,
                         "options": ALT, "tokens": False, "edges": True})
            variant_of[len(graphs)] = "schema as introspection JSON"
            graphs.append((n, edges, oneof))
            reqs.append({"op": "gen", "schema_path": scratch_file(graph_schema(n, edges, oneof).introspection(), "json", "c12"), "query_text": query,
                         "options": DEFAULT_OPTS, "tokens": False, "edges": True})
            for naming in ("keyword", "camel", "underscore"):
                if n == 1 or naming == "keyword" or tier == "thorough":
                    variant_of[len(graphs)] = "field names: " + naming
                    graphs.append((n, edges, oneof))
                    reqs.append({"op": "gen", "schema_path": scratch_file(graph_sdl(n, edges, oneof, naming), "graphql", "c12"), "query_text": query,
                                 "options": DEFAULT_OPTS, "tokens": False, "edges": True})
            # type names that the rust normalization rewrites (tree_in0 -> TreeIn0): the indirection must follow the type
            variant_of[len(graphs)] = "snake_case type names under rust normalization"
            graphs.append((n, edges, oneof))
            reqs.append({"op": "gen", "schema_path": scratch_file(graph_sdl(n, edges, oneof, tname="tree_in%d"), "graphql", "c12"),
                         "query_text": query.replace("In0", "tree_in0"), "options": ALT, "tokens": False, "edges": True})
            # several operations in ONE document (one generator call, one module per operation): an operation that
            # uses only a non-recursive input comes first, the one with the recursive input second, a third has no
            # variables; where the indirection goes is a matter of the types, not of which operation is generated first
            variant_of[len(graphs)] = "multi-operation document, plain-input operation first"
            if n == 1:
                skip_idx.append(len(graphs))
            graphs.append((n, edges, oneof))
            multi_sdl = graph_sdl(n, edges, oneof).replace("type Q { ", "type Q { g(p: Plain): Int h: Int ") + "input Plain { v: Int w: [Plain!] }\n"
            reqs.append({"op": "gen", "schema_path": scratch_file(multi_sdl, "graphql", "c12"),
                         "query_text": "query First($p: Plain) { g(p: $p) }\n" + query + "query Last { h }\n",
                         "options": DEFAULT_OPTS, "tokens": False, "edges": True})
            if n == 1 or all(tuple(v) in ((), ("T",)) for v in edges.values()):
                # skip-none: compiled below, the JSON must not show the indirection either (a None member is omitted)
                variant_of[len(graphs)] = "skip_serializing_none"
                skip_idx.append(len(graphs))
                graphs.append((n, edges, oneof))
                reqs.append({"op": "gen", "schema_path": scratch_file(graph_sdl(n, edges, oneof), "graphql", "c12"), "query_text": query,
                             "options": SKIP, "tokens": False, "edges": True})
    log(f"[C12] {len(graphs)} input-type graphs")
    resps = run_cases(reqs, progress=20000)
    states = 0
    cyclic_graphs = 0
    boxed = 0
    samples = []
    for gi, ((n, edges, oneof), r) in enumerate(zip(graphs, resps)):
        states += 1
        label = {"n": n, "edges": {"%d->%d" % k: v for k, v in edges.items() if v}, "oneOf": list(oneof),
                 "variant": variant_of.get(gi, "default")}
        if r["status"] != "ok":
            rep.violation("generation_failed", dict(label, schema=graph_sdl(n, edges, oneof)), r.get("msg") or r["status"])
            continue
        cyc = has_cycle(r["edges"])
        if graph_has_value_cycle(n, edges):
            cyclic_graphs += 1
        if any(e[2] == "box" for es in r["edges"].values() for e in es):
            boxed += 1
        if cyc:
            rep.violation("infinite_size_input_type", dict(label, schema=graph_sdl(n, edges, oneof)), "by-value cycle " + " -> ".join(cyc))
        elif len(samples) < 3000 and graph_has_value_cycle(n, edges):
            samples.append(label)
    # ------------------------------------------------------------- fragments (token-level model)
    pats = fragment_patterns()
    sdl = REC_SCHEMA.sdl()
    fres = generate([gen_request(sdl, gql.render_doc(d), edges=True) for _, d in pats])
    farm = Farm("c12")
    compiled = []
    for (desc, d), r in zip(pats, fres):
        states += 1
        label = {"pattern": desc, "query": gql.render_doc(d)}
        if r["status"] != "ok":
            rep.violation("generation_failed", label, r.get("msg"))
            continue
        cyc = has_cycle(r["edges"])
        clen = fragment_cycle_len(d)
        sigs = {"fragment_cycle_through_other_fragment"} if (clen or 0) >= 2 else set()
        if cyc:
            rep.violation("infinite_size_fragment_type", label, "by-value cycle " + " -> ".join(cyc), sigs)
        cid = farm.add(Case(r["tokens"], [("op", "Op")]))
        compiled.append({"kind": "fragment", "label": label, "case": cid, "model_infinite": bool(cyc), "sigs": sigs})
        twin = strip_boxes(r["tokens"])
        if twin != r["tokens"]:
            compiled.append({"kind": "fragment_twin", "label": dict(label, twin="Box stripped"), "tokens": twin})
    # ------------------------------------------------------------- conformance subset (inputs)
    conf = []
    for idx, (n, edges, oneof) in enumerate(graphs):
        if idx >= n_default:
            break
        if n == 1:
            conf.append(idx)
        elif n == 2 and not any(len(v) > 1 for v in edges.values()):
            ks = [tuple(edges.get(p, [])) for p in [(0, 0), (0, 1), (1, 0), (1, 1)]]
            if tier == "thorough" or (all(k in ((), ("T",), ("T!",), ("[T]",)) for k in ks) and not any(oneof)) or \
                    (any(oneof) and all(k in ((), ("T",)) for k in ks)):
                conf.append(idx)
        elif n == 4 and (tier == "thorough" or len(conf) % 7 == 0):
            conf.append(idx)
    if tier == "thorough":
        # one n = 3 graph per (set of edge kinds used, has value cycle) class
        seen = set()
        for idx, (n, edges, oneof) in enumerate(graphs):
            if n == 3:
                key = (tuple(sorted(k for v in edges.values() for k in v)), graph_has_value_cycle(n, edges))
                if key not in seen:
                    seen.add(key)
                    conf.append(idx)
    conf = conf + skip_idx
    creqs = [dict(reqs[i], tokens=True, edges=True) for i in conf]
    cres = run_cases(creqs)
    for i, r in zip(conf, cres):
        n, edges, oneof = graphs[i]
        if r["status"] != "ok":
            continue
        label = {"n": n, "edges": {"%d->%d" % k: v for k, v in edges.items() if v}, "oneOf": list(oneof),
                 "schema": graph_sdl(n, edges, oneof)}
        cid = farm.add(Case(r["tokens"], [("op", "Op")]))
        compiled.append({"kind": "input", "label": dict(label, variant=variant_of.get(i, "default")), "case": cid, "model_infinite": bool(has_cycle(r["edges"])),
                         "graph": graphs[i], "skip_none": i in variant_of and variant_of[i] == "skip_serializing_none"})
        twin = strip_boxes(r["tokens"])
        if twin != r["tokens"] and (tier == "thorough" or len(compiled) % 3 == 0):
            compiled.append({"kind": "input_twin", "label": dict(label, twin="Box stripped"), "tokens": twin})
    twins = [c for c in compiled if "tokens" in c]
    tres = run_cases([{"op": "inspect_text", "text": c["tokens"]} for c in twins])
    for c, r in zip(twins, tres):
        c["model_infinite"] = bool(has_cycle(r["edges"])) if r.get("status") == "ok" else None
        c["case"] = farm.add(Case(c["tokens"], [("op", "Op")]))
    farm.build()
    validated = 0
    agree_inf = 0
    vreqs, vmeta = [], []
    for c in compiled:
        fc = farm.cases[c["case"]]
        rustc_infinite = any(e["code"] == "E0072" for e in fc.errors)
        other_errors = [e for e in fc.errors if e["code"] not in ("E0072", "E0391")]
        validated += 1
        if c["model_infinite"] is None:
            rep.violation("twin_not_parsable", c["label"], "")
            continue
        if rustc_infinite != c["model_infinite"]:
            rep.violation("model_disagrees_with_rustc", c["label"], {"model_infinite": c["model_infinite"], "rustc": [e["code"] for e in fc.errors]},
                          c.get("sigs", ()))
        elif rustc_infinite:
            agree_inf += 1
        if other_errors and not c["kind"].endswith("twin"):
            rep.violation("does_not_compile", c["label"], [(e["code"], e["message"][:120]) for e in other_errors[:2]])
        if c["kind"] == "input" and fc.compiles:
            n, edges, oneof = c["graph"]
            for depth in (0, 1, 2):
                v = input_value(n, edges, oneof, 0, depth)
                if v is None:
                    continue
                vreqs.append({"case": c["case"], "module": "op", "what": "vars", "arg": {"a": v}})
                vmeta.append((c, v))
    vres = farm.run(vreqs)
    for (c, v), r in zip(vmeta, vres):
        if not r or not r.get("ok"):
            rep.violation("recursive_value_rejected", dict(c["label"], value=v), (r or {}).get("err"))
            continue
        got = json.loads(r["out"])["variables"]["a"]
        if strip_nulls(got) != strip_nulls(v):
            rep.violation("box_visible_in_json", dict(c["label"], value=v), got)
        elif c.get("skip_none") and got != strip_nulls(v):
            # with skip_serializing_none a None member is left out - boxed or not
            rep.violation("box_visible_in_json", dict(c["label"], value=v, expected=strip_nulls(v)), got)
    cov = {
        "states": states, "transitions": len(reqs) + len(pats) + len(twins) + len(vreqs),
        "traces_validated_against_impl": validated,
        "evaluations": len(reqs) + len(pats) + len(vreqs), "distinct_nontrivial": cyclic_graphs + len(pats),
        "rule": "state = labelled digraph of input object types: n = 1 (none / one / two self edges x @oneOf), n = 2 (one edge kind "
                "per ordered pair from {none, T, T!, [T], [T!]!} x every @oneOf assignment, plus two fields on one pair), n = 3 "
                "(%s per ordered pair, all 9 pairs), n = 4 rings and rings with a chord; plus %d fragment recursion patterns. "
                "non-trivial = graphs with a cycle that avoids list edges. Conformance = compiled subset (all n = 1, n = 2 single-edge "
                "graphs of the tier, n = 4 sample, all fragment patterns) and their Box-stripped twins compared with rustc's E0072 "
                "verdict" % ("{none, T, [T!]}" if tier == "quick" else "{none, T, T!, [T!]}", len(pats)),
        "graphs": len(graphs), "graphs_with_value_cycle": cyclic_graphs, "graphs_with_box_emitted": boxed,
        "compiled": len(compiled), "model_and_rustc_agree_infinite": agree_inf, "value_roundtrips": len(vreqs),
        "exhaustive": True,
        "samples": pick_samples(samples, 5) + [{"pattern": d} for d, _ in pats[:3]],
    }
    return rep.finish(cov, ["@oneOf types with a non-null member are outside the @oneOf specification and skipped",
                            "the finite-size rule treats only Vec and Box as indirection, as rustc does for these emitted types"])


def strip_nulls(v):
    if isinstance(v, dict):
        return {k: strip_nulls(x) for k, x in v.items() if x is not None}
    if isinstance(v, list):
        return [strip_nulls(x) for x in v]
    return v
