"""C13 — one exact rule maps GraphQL type modifiers to Option / Vec nesting.

Finite space, fully enumerated: every type expression of list depth <= 4 (62) x every kind of named
type x every position (response field, variable, input-object field, @oneOf member, object field narrowing an interface field) x both schema
formats. Model = the ten-line structural rule `gql.rust_type`; the emitted field types are read from
the real generator's token stream (syn). Conformance: the response-field and variable modules are
compiled in the farm and fed, per field, one conforming value and one value with a null injected at
every nesting level, which rustc/serde must accept or reject exactly as the model's type says.
"""
import json

import gql
from common import Report, pick_samples, log
from farm import Farm, Case
from genlib import gen_request, generate

OUT_KINDS = ["Int", "Float", "String", "Boolean", "ID", "Date", "Role", "Obj", "Iface", "Uni"]
IN_KINDS = ["Int", "Float", "String", "Boolean", "ID", "Date", "Role", "InObj", "RecIn"]
ALIASES = {"Boolean": "bool", "Float": "f64", "Int": "i64", "ID": "String"}
LEAF_VALUE = {"Int": 7, "Float": 1.5, "String": "s", "Boolean": True, "ID": "x", "Date": "d", "Role": "A",
              "Obj": {"x": 1}, "Iface": {"__typename": "Obj", "x": 1}, "Uni": {"__typename": "Obj", "x": 1},
              "InObj": {"x": 1}, "RecIn": {"x": 1}}


def base_types():
    return [
        gql.scalar("Date"), gql.enum("Role", ["A", "B"]),
        gql.iface("Iface", [("x", "Int")]),
        gql.obj("Obj", [("x", "Int")], ["Iface"]),
        gql.union("Uni", ["Obj"]),
        gql.inp("InObj", [("x", "Int")]),
        # an input object that contains itself: references to it may get a `Box` around the WHOLE field type, but the
        # Option / Vec nesting inside is the rule's
        gql.inp("RecIn", [("x", "Int"), ("next", "RecIn")]),
    ]


DEFAULT_LEAF = {"Int": "5", "Float": "1.5", "String": '"s"', "Boolean": "true", "ID": '"x"', "Role": "A", "InObj": "{x: 1}", "RecIn": "{x: 1}"}


def default_literal(t, leaf):
    inner = t[1] if t[0] == "NN" else t
    if inner[0] == "L":
        return "[" + default_literal(inner[1], leaf) + "]"
    return leaf


def build_case(kind, position, exprs):
    """Returns (schema, doc, expected) where expected maps wire name -> (type expr, leaf ident)."""
    types = base_types()
    expected = {}
    if position == "response":
        fields = []
        sel = []
        for i, t in enumerate(exprs):
            fn = "f%d" % i
            fields.append(gql.FieldDef(fn, t))
            if kind == "Obj":
                sel.append(gql.Field(fn, [gql.Field("x")]))
                leaf = "OpF%d" % i
            elif kind in ("Iface", "Uni"):
                sel.append(gql.Field(fn, [gql.TN()]))
                leaf = "OpF%d" % i
            else:
                sel.append(gql.Field(fn))
                leaf = kind
            expected[fn] = (t, leaf)
        types.append(gql.obj("Q", fields))
        doc = gql.Doc([gql.Op("query", "Op", sel)])
    elif position == "object_refines_interface":
        # the interface declares every field with all `!` removed; the implementing object narrows it to the
        # expression under test (legal covariance); the query selects the field on the object
        def loosen(t):
            if t[0] == "NN":
                return loosen(t[1])
            if t[0] == "L":
                return ("L", loosen(t[1]))
            return t
        ifields, ofields, sel = [], [], []
        for i, t in enumerate(exprs):
            fn = "f%d" % i
            ifields.append(gql.FieldDef(fn, loosen(t)))
            ofields.append(gql.FieldDef(fn, t))
            if kind == "Obj":
                sel.append(gql.Field(fn, [gql.Field("x")]))
                leaf = "OpImplF%d" % i
            elif kind in ("Iface", "Uni"):
                sel.append(gql.Field(fn, [gql.TN()]))
                leaf = "OpImplF%d" % i
            else:
                sel.append(gql.Field(fn))
                leaf = kind
            expected[fn] = (t, leaf)
        types.append(gql.iface("RBase", ifields))
        types.append(gql.obj("RImpl", ofields, ["RBase"]))
        types.append(gql.obj("Q", [("impl", "RImpl"), ("base", "RBase")]))
        doc = gql.Doc([gql.Op("query", "Op", [gql.Field("impl", sel)])])
    elif position == "conditional_response":
        # the field itself carries @include: exactly the outermost non-null goes away, every other level stays
        fields, sel = [], []
        for i, t in enumerate(exprs):
            fn = "f%d" % i
            fields.append(gql.FieldDef(fn, t))
            d = [("include", "c")] if i % 2 == 0 else [("skip", "c")]
            if kind == "Obj":
                sel.append(gql.Field(fn, [gql.Field("x")], directives=d))
                leaf = "OpF%d" % i
            elif kind in ("Iface", "Uni"):
                sel.append(gql.Field(fn, [gql.TN()], directives=d))
                leaf = "OpF%d" % i
            else:
                sel.append(gql.Field(fn, directives=d))
                leaf = kind
            expected[fn] = (t[1] if t[0] == "NN" else t, leaf)
        types.append(gql.obj("Q", fields))
        doc = gql.Doc([gql.Op("query", "Op", sel, [("c", "Boolean!", None)])])
    elif position == "below_conditional_fragment":
        # the fields sit in an object selected INSIDE an inline fragment that carries @include: a directive on the fragment
        # says nothing about the types of fields further down
        fields, sel = [], []
        for i, t in enumerate(exprs):
            fn = "f%d" % i
            fields.append(gql.FieldDef(fn, t))
            if kind == "Obj":
                sel.append(gql.Field(fn, [gql.Field("x")]))
                leaf = "OpNOnHolderTSubF%d" % i
            elif kind in ("Iface", "Uni"):
                sel.append(gql.Field(fn, [gql.TN()]))
                leaf = "OpNOnHolderTSubF%d" % i
            else:
                sel.append(gql.Field(fn))
                leaf = kind
            expected[fn] = (t, leaf)
        types.append(gql.obj("SubT", fields))
        types.append(gql.iface("HolderI", [("id", "ID")]))
        types.append(gql.obj("HolderT", [("id", "ID"), ("sub", "SubT!")], ["HolderI"]))
        types.append(gql.obj("Q", [("n", "HolderI")]))
        doc = gql.Doc([gql.Op("query", "Op", [gql.Field("n", [gql.TN(), gql.Inline("HolderT", [gql.Field("sub", sel)], directives=[("include", "c")])])],
                              [("c", "Boolean!", None)])])
    elif position == "variable":
        types.append(gql.obj("Q", [("a", "Int")]))
        vars_ = []
        for i, t in enumerate(exprs):
            vars_.append(("v%d" % i, gql.type_str(t), None))
            expected["v%d" % i] = (t, kind)
            # the same expression on a variable that declares a default value in the operation
            if kind in DEFAULT_LEAF and kind not in ("InObj", "Role", "RecIn"):   # (enum / input-object default literals: recorded findings of C02)
                vars_.append(("w%d" % i, gql.type_str(t), default_literal(t, DEFAULT_LEAF[kind])))
                expected["w%d" % i] = (t, kind)
        doc = gql.Doc([gql.Op("query", "Op", [gql.Field("a")], vars_)])
    elif position == "input_field":
        types.append(gql.obj("Q", [("a", "Int")]))
        hf = [gql.FieldDef("g%d" % i, t) for i, t in enumerate(exprs)]
        for i, t in enumerate(exprs):
            expected["g%d" % i] = (t, kind)
            # the same expression on a field that declares a schema default: the default never changes the type
            if kind in DEFAULT_LEAF:
                hf.append(gql.FieldDef("d%d" % i, t, default=default_literal(t, DEFAULT_LEAF[kind])))
                expected["d%d" % i] = (t, kind)
        types.append(gql.inp("Holder", hf))
        doc = gql.Doc([gql.Op("query", "Op", [gql.Field("a")], [("h", "Holder", None)])])
    elif position == "oneof_member":
        types.append(gql.obj("Q", [("a", "Int")]))
        nullable = [(i, t) for i, t in enumerate(exprs) if t[0] != "NN"]
        types.append(gql.inp("Holder", [("m%d" % i, t) for i, t in nullable], one_of=True))
        for i, t in nullable:
            expected["m%d" % i] = (("NN", t), kind)  # the variant carries the member without its outer Option
        doc = gql.Doc([gql.Op("query", "Op", [gql.Field("a")], [("h", "Holder", None)])])
    schema = gql.Schema(types, {"query": "Q"}, explicit=True)
    return schema, doc, expected


def find_mod(items, name):
    for it in items:
        if it["kind"] == "mod" and it["name"] == name:
            return it
    return None


def wire_name(field):
    for a in field["attrs"]:
        if a["path"] == "serde" and "rename" in a["kv"]:
            return a["kv"]["rename"]
    return field["name"]


def conforming(t, leaf_value, null_at=None, level=0):
    """A value of type t; with null_at = k the value at nesting level k is replaced by null."""
    if null_at == level:
        return None
    inner = t[1] if t[0] == "NN" else t
    if inner[0] == "L":
        return [conforming(inner[1], leaf_value, null_at, level + 1)]
    return leaf_value


def nullable_at(t, level):
    """Is the position at nesting `level` nullable?"""
    cur = t
    for _ in range(level):
        cur = cur[1] if cur[0] == "NN" else cur
        cur = cur[1]
    return cur[0] != "NN"


def depth_of(t):
    d = 0
    while t[0] != "N":
        if t[0] == "L":
            d += 1
        t = t[1]
    return d


def run(tier):
    rep = Report("C13", "model_checking", tier)
    cases = []
    for position, kinds in (("response", OUT_KINDS), ("variable", IN_KINDS), ("input_field", IN_KINDS),
                            ("oneof_member", IN_KINDS), ("object_refines_interface", OUT_KINDS), ("below_conditional_fragment", OUT_KINDS), ("conditional_response", OUT_KINDS)):
        for kind in kinds:
            exprs = gql.all_type_exprs(kind, 4)
            schema, doc, expected = build_case(kind, position, exprs)
            for fmt in ("sdl", "json", "sdl_rust"):   # sdl_rust: the SDL again, under normalization = rust (the rule is option-independent)
                cases.append({"position": position, "kind": kind, "fmt": fmt, "schema": schema, "doc": doc,
                              "expected": expected})
    reqs = []
    for c in cases:
        text = c["schema"].introspection() if c["fmt"] == "json" else c["schema"].sdl()
        from genlib import DEFAULT_OPTS
        reqs.append(gen_request(text, gql.render_doc(c["doc"]), dict(DEFAULT_OPTS, normalization="rust", skip_none=True) if c["fmt"] == "sdl_rust" else None,
                                ext=("json" if c["fmt"] == "json" else "graphql"), inspect=True))
    resps = generate(reqs)
    states = 0
    transitions = 0
    samples = []
    farm = Farm("c13")
    for c, r in zip(cases, resps):
        label = {"position": c["position"], "named": c["kind"], "format": c["fmt"]}
        if r["status"] != "ok" or "items" not in r:
            rep.violation("generation_failed", label, r.get("msg") or r.get("parse_error") or r["status"])
            continue
        mod = find_mod(r["items"], "op")
        aliases = {it["name"]: it["ty"] for it in mod["items"] if it["kind"] == "type"}
        for a, target in ALIASES.items():
            transitions += 1
            if aliases.get(a) != target:
                rep.violation("builtin_scalar_alias", dict(label, alias=a), "type %s = %r, expected %s" % (a, aliases.get(a), target))
        holder = {"response": "ResponseData", "variable": "Variables", "input_field": "Holder",
                  "oneof_member": "Holder", "object_refines_interface": "OpImpl", "below_conditional_fragment": "OpNOnHolderTSub", "conditional_response": "ResponseData"}[c["position"]]
        item = next((it for it in mod["items"] if it["kind"] in ("struct", "enum") and it["name"] == holder), None)
        if item is None:
            rep.violation("holder_missing", label, holder)
            continue
        found = {}
        if item["kind"] == "struct":
            for f in item["fields"]:
                found[wire_name(f)] = f["ty"]
        else:
            for v in item["variants"]:
                found[wire_name(v)] = v["fields"][0]["ty"] if v["fields"] else None
        for wire, (t, leaf) in c["expected"].items():
            states += 1
            transitions += 1
            want = gql.rust_type(t, leaf)
            got = found.get(wire)
            if got is not None:
                got = got.replace("::std::option::", "").replace("std::option::", "").replace("::std::vec::", "").replace("std::vec::", "")
            if got is not None and c["kind"] == "RecIn" and got.startswith("Box<") and got.endswith(">"):
                got = got[4:-1]   # the indirection of a recursive input (C12's subject) wraps the field type as a whole
            if got != want:
                rep.violation("modifier_rule", dict(label, type_expr=gql.type_str(t), wire=wire),
                              "emitted %r, rule says %r" % (got, want))
            elif len(samples) < 400:
                samples.append({**label, "type_expr": gql.type_str(t), "rust": got})
        if set(found) - set(c["expected"]):
            rep.violation("unexpected_members", label, sorted(set(found) - set(c["expected"])))
        if c["fmt"] == "sdl" and c["position"] in ("response", "variable", "object_refines_interface"):
            prelude = "pub type Date = String;"
            fc = Case(r["tokens"], [("op", "Op")], prelude=prelude)
            c["farm_case"] = farm.add(fc)
    # ---- conformance: rustc + serde on the compiled modules
    farm.build()
    freqs, fmeta = [], []
    for c in cases:
        cid = c.get("farm_case")
        if not cid:
            continue
        if not farm.cases[cid].compiles:
            rep.violation("does_not_compile", {"position": c["position"], "named": c["kind"]}, farm.cases[cid].errors[:2])
            continue
        lv = LEAF_VALUE[c["kind"]]
        base = {w: conforming(t, lv) for w, (t, _) in c["expected"].items()}
        what = "resp" if c["position"] in ("response", "object_refines_interface") else "vars"
        wrap = (lambda v: {"impl": v}) if c["position"] == "object_refines_interface" else (lambda v: v)
        freqs.append({"case": cid, "module": "op", "what": what, "arg": wrap(base)})
        fmeta.append((c, None, None, True))
        for w, (t, _) in c["expected"].items():
            for level in range(depth_of(t) + 1):
                v = dict(base)
                v[w] = conforming(t, lv, null_at=level)
                freqs.append({"case": cid, "module": "op", "what": what, "arg": wrap(v)})
                fmeta.append((c, w, level, nullable_at(t, level)))
    fres = farm.run(freqs)
    validated = 0
    for (c, w, level, expect_ok), r in zip(fmeta, fres):
        validated += 1
        ok = bool(r and r.get("ok"))
        if ok != expect_ok:
            rep.violation("conformance", {"position": c["position"], "named": c["kind"], "wire": w, "null_at_level": level,
                                          "type_expr": gql.type_str(c["expected"][w][0]) if w else None},
                          "serde %s, the rule's type %s (%s)" % ("accepted" if ok else "rejected",
                                                                  "accepts" if expect_ok else "rejects", (r or {}).get("err")))
    cov = {
        "states": states, "transitions": transitions + validated,
        "traces_validated_against_impl": validated,
        "evaluations": len(reqs) + validated, "distinct_nontrivial": states,
        "rule": "state = (type expression of list depth <= 4, kind of named type, position, schema format); all 62 "
                "expressions x 10 output / 9 input kinds (incl. a self-recursive input object, whose outer Box is ignored) x 7 positions (response fields that carry @skip / @include themselves, fields of an object below a conditional inline fragment, response field, variable, input field - also with a declared default value -, @oneOf member, field of an object that narrows an interface's declaration) x 2 formats (the @oneOf position only for "
                "nullable outermost expressions); transition = comparison of the emitted field type with the "
                "model rule, plus one conformance run per (field, null injected at nesting level) on compiled code",
        "exhaustive": True,
        "generator_calls": len(reqs), "modules_compiled": len(farm.cases),
        "samples": pick_samples(samples, 8),
    }
    return rep.finish(cov, ["field types are compared after stripping `std::option::` / `std::vec::` path prefixes",
                            "conformance values use one element per list level"])
