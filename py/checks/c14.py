"""C14 — deprecation strategies allow / warn / deny do exactly what is documented.

Finite space, enumerated completely: an object and an interface with 4 fields each, every
assignment of {current, deprecated, deprecated with reason} (3^4) x reason alphabet x {SDL,
introspection JSON} x selection style {direct, aliased, via named fragment, inside an
inline-fragment variant, on the interface} x strategy {unset, allow, warn, deny}. Model = the
three documented rules, evaluated on the real generator's token stream; the `deny` clause
(payloads containing the omitted fields still deserialise) is validated on compiled code.
"""
import itertools
import json

import gql
from gql import Field, Inline, Spread, FragDef, Op, Doc, TN
from common import Report, pick_samples, log
from farm import Farm, Case
from genlib import gen_request, generate, DEFAULT_OPTS

REASONS = ["use other", 'say "hi" \\ back', "dépassé ✓", "line1\nline2", "  two  blanks\t and a tab, blanks at both ends ", ""]
STYLES = ["direct", "aliased", "fragment", "variant", "interface"]
STRATEGIES = [None, "allow", "warn", "deny"]


TYPE_SETS = {
    # one leaf of every kind the generator has a separate arm for, and one composite
    "A": ["String", "Kind!", "Sub", "Boolean"],
    "B": ["Date", "[Kind]", "Uni", "[ID!]"],
}


def make_schema(assign, reason_shift=0, tset="A", extend=False):
    """assign: tuple of 4 in {0 current, 1 deprecated, 2 deprecated with reason}."""
    deps = []
    r = reason_shift
    for a in assign:
        if a == 0:
            deps.append(None)
        elif a == 1:
            deps.append((None,))
        else:
            deps.append((REASONS[r % len(REASONS)],))
            r += 1
    tf = [gql.FieldDef("f%d" % i, TYPE_SETS[tset][i], dep=deps[i]) for i in range(4)]
    gf = [gql.FieldDef("g%d" % i, TYPE_SETS[tset][i], dep=deps[i]) for i in range(4)]
    # the implementor repeats the interface's fields, not deprecated there
    tg = [gql.FieldDef("g%d" % i, TYPE_SETS[tset][i]) for i in range(4)]
    # extend = True: the f-fields of T are declared in an `extend type T { .. }` block of the SDL
    schema = gql.Schema([
        gql.obj("Sub", [("x", "Int")]),   # field 2 is object-typed: a deprecated composite field has a sub-selection
        gql.enum("Kind", ["K1", "K2"]), gql.scalar("Date"), gql.union("Uni", ["Sub"]),
        gql.iface("IF", gf),
        gql.obj("T", ([] if extend else tf) + tg + [gql.FieldDef("keep", "Int")], ["IF"]),
        gql.obj("Q", [("t", "T"), ("i", "IF")]),
    ], {"query": "Q"}, extensions=([("T", tf, [])] if extend else []))
    return schema, deps


def F(name, alias=None, tset="A"):
    """Selection of field `name` (fields f2 / g2 are composite)."""
    if name.endswith("2"):
        return Field(name, [Field("x")] if tset == "A" else [TN(), Inline("Sub", [Field("x")])], alias=alias)
    return Field(name, None, alias=alias)


def make_doc(style, tset="A"):
    global _TSET
    _TSET = tset
    fs = ["f%d" % i for i in range(4)]
    if style == "direct":
        return Doc([Op("query", "Op", [Field("t", [F(f, tset=tset) for f in fs] + [Field("keep")])])]), "OpT", {f: f for f in fs}, ["t"]
    if style == "aliased":
        return Doc([Op("query", "Op", [Field("t", [F(f, alias="a" + f, tset=tset) for f in fs] + [Field("keep")])])]), "OpT", {f: "a" + f for f in fs}, ["t"]
    if style == "fragment":
        return Doc([FragDef("Frag", "T", [F(f, tset=tset) for f in fs] + [Field("keep")]),
                    Op("query", "Op", [Field("t", [Spread("Frag")])])]), "Frag", {f: f for f in fs}, ["t"]
    if style == "variant":
        return Doc([Op("query", "Op", [Field("i", [TN(), Inline("T", [F(f, tset=tset) for f in fs] + [Field("keep")])])])]), "OpIOnT", {f: f for f in fs}, ["i"]
    gs = ["g%d" % i for i in range(4)]
    if style == "only_these":
        # nothing else is selected on the object: under `deny` an assignment that deprecates all four leaves an EMPTY struct,
        # which still has to take a payload that contains them
        return Doc([Op("query", "Op", [Field("t", [F(f, tset=tset) for f in fs])])]), "OpT", {f: f for f in fs}, ["t"]
    if style == "conditional":
        # the deprecated fields carry @include: the attribute / the omission must not depend on it
        def FC(f):
            x = F(f, tset=tset)
            return Field(x.name, x.sel, x.alias, x.args, directives=[("include", "c")])
        return Doc([Op("query", "Op", [Field("t", [FC(f) for f in fs] + [Field("keep")])], [("c", "Boolean!", None)])]), "OpT", {f: f for f in fs}, ["t"]
    if style == "object_copy":
        # the implementing object's own declarations of the interface's fields (never deprecated on the object)
        return Doc([Op("query", "Op", [Field("t", [F(g, tset=tset) for g in gs] + [Field("keep")])])]), "OpT", {("f%d" % i): gs[i] for i in range(4)}, ["t"]
    return Doc([Op("query", "Op", [Field("i", [TN()] + [F(g, tset=tset) for g in gs])])]), "OpI", {("f%d" % i): gs[i] for i in range(4)}, ["i"]


def find_struct(items, name):
    for it in items:
        if it["kind"] == "mod":
            r = find_struct(it["items"], name)
            if r:
                return r
        elif it["kind"] == "struct" and it["name"] == name:
            return it
        elif it["kind"] == "enum" and it["name"] == name:
            # a selection on an interface whose own fields were all omitted is emitted as the bare
            # variants enum: a holder without fields
            return {"kind": "struct", "name": name, "fields": [], "attrs": it["attrs"]}
    return None


def all_field_attrs(items):
    for it in items:
        if it["kind"] == "mod":
            yield from all_field_attrs(it["items"])
        elif it["kind"] == "struct":
            for f in it["fields"]:
                yield it["name"], f
        elif it["kind"] == "enum":
            for v in it["variants"]:
                yield it["name"], v


def wire(f):
    for a in f["attrs"]:
        if a["path"] == "serde" and "rename" in a["kv"]:
            return a["kv"]["rename"]
    return f["name"]


def dep_attr(f):
    for a in f["attrs"]:
        if a["path"] == "deprecated":
            return a
    return None


def sample_value(i, tset="A"):
    if tset == "B":
        return ["2020-01-01", ["K1", None], {"__typename": "Sub", "x": 1}, ["a", 7]][i]
    return ["s", "K1", {"x": 1}, True][i]


def run(tier):
    rep = Report("C14", "model_checking", tier)
    cases = []
    for assign in itertools.product((0, 1, 2), repeat=4):
        for fmt in ("sdl", "json"):
            for style in STYLES:
                for strat in STRATEGIES:
                    cases.append({"assign": assign, "fmt": fmt, "style": style, "strategy": strat, "shift": sum(assign) % 4})
    # the second type set (custom scalar, list of enum, union, list of ID) for the strategies that act on the attribute
    for assign in itertools.product((0, 1, 2), repeat=4):
        for fmt in ("sdl", "json"):
            for style in ("direct", "fragment", "variant"):
                for strat in ("warn", "deny"):
                    cases.append({"assign": assign, "fmt": fmt, "style": style, "strategy": strat, "shift": sum(assign) % 4, "tset": "B"})
    for assign in itertools.product((0, 1, 2), repeat=4):
        for strat in ("warn", "deny"):
            cases.append({"assign": assign, "fmt": "sdl", "style": "only_these", "strategy": strat, "shift": sum(assign) % 4})
    for assign in itertools.product((0, 1, 2), repeat=4):
        for strat in ("warn", "deny", "allow"):
            cases.append({"assign": assign, "fmt": "sdl", "style": "conditional", "strategy": strat, "shift": sum(assign) % 4})
    # the object's own (current) declarations of fields the interface deprecates
    for assign in itertools.product((0, 1, 2), repeat=4):
        for fmt in ("sdl", "json"):
            for strat in ("warn", "deny"):
                cases.append({"assign": assign, "fmt": fmt, "style": "object_copy", "strategy": strat, "shift": sum(assign) % 4})
    # the same fields declared in an `extend type` block (SDL only)
    for assign in itertools.product((0, 1, 2), repeat=4):
        for style in ("direct", "fragment", "variant"):
            for strat in ("warn", "deny", "allow"):
                cases.append({"assign": assign, "fmt": "sdl_ext", "style": style, "strategy": strat, "shift": sum(assign) % 4})
    # the rules are independent of the other options: once more under rust normalization + skip-none + other-variant
    for assign in itertools.product((0, 1, 2), repeat=4):
        for style in ("direct", "variant", "interface"):
            for strat in ("warn", "deny"):
                cases.append({"assign": assign, "fmt": "sdl", "style": style, "strategy": strat, "shift": sum(assign) % 4,
                              "opts": {"normalization": "rust", "skip_none": True, "other_variant": True, "response_derives": "Serialize,Debug,Clone"}})
    # every reason on every field position once more (full reason alphabet on one field)
    for pos in range(4):
        for ri in range(len(REASONS)):
            for fmt in ("sdl", "json"):
                a = [0, 0, 0, 0]
                a[pos] = 2
                cases.append({"assign": tuple(a), "fmt": fmt, "style": "direct", "strategy": "warn", "shift": ri})
    reqs = []
    for c in cases:
        schema, deps = make_schema(c["assign"], c["shift"], c.get("tset", "A"), extend=c["fmt"] == "sdl_ext")
        c["deps"] = deps if c["style"] != "object_copy" else [None] * 4
        doc, holder, wires, path = make_doc(c["style"], c.get("tset", "A"))
        c["doc"], c["holder"], c["wires"], c["path"] = doc, holder, wires, path
        text = schema.sdl() if c["fmt"] in ("sdl", "sdl_ext") else schema.introspection()
        opts = dict(DEFAULT_OPTS, **c.get("opts", {}))
        if c["strategy"]:
            opts["deprecation"] = c["strategy"]
        reqs.append(gen_request(text, gql.render_doc(doc), opts, ext="json" if c["fmt"] == "json" else "graphql", inspect=True))
    # block-string reason (SDL only)
    block_sdl = ('schema { query: Q }\ntype Q { t: T }\ntype T { f0: String @deprecated(reason: """\n  block reason\n  second "line"\n  """) keep: Int }\n')
    reqs.append(gen_request(block_sdl, "query Op { t { f0 keep } }\n", dict(DEFAULT_OPTS, deprecation="warn"), inspect=True))
    log(f"[C14] {len(reqs)} generator calls")
    resps = generate(reqs)
    states = 0
    samples = []
    farm = Farm("c14")
    for c, r in zip(cases, resps):
        states += 1
        label = {"assignment": c["assign"], "format": c["fmt"], "style": c["style"], "strategy": c["strategy"] or "<unset>", "other_options": c.get("opts", "default"), "field_types": TYPE_SETS[c.get("tset", "A")],
                 "query": gql.render_doc(c["doc"])}
        c["label"] = label
        if r["status"] != "ok":
            rep.violation("generation_failed", label, r.get("msg"))
            continue
        st = find_struct(r["items"], c["holder"])
        if st is None:
            rep.violation("holder_struct_missing", label, c["holder"])
            continue
        by_wire = {wire(f): f for f in st["fields"]}
        strat = c["strategy"] or "warn"
        for i in range(4):
            w = c["wires"]["f%d" % i]
            dep = c["deps"][i]
            f = by_wire.get(w)
            if strat == "deny" and dep is not None:
                if f is not None:
                    rep.violation("deny_kept_deprecated_field", dict(label, field=w), f)
                continue
            if f is None:
                rep.violation("field_missing", dict(label, field=w), sorted(by_wire))
                continue
            da = dep_attr(f)
            if strat == "allow" or dep is None or strat == "deny":
                if da is not None:
                    rep.violation("unexpected_deprecated_attribute", dict(label, field=w), da)
            else:
                if da is None:
                    rep.violation("deprecated_attribute_missing", dict(label, field=w), f["attrs"])
                elif dep[0] is None:
                    if da["kv"]:
                        rep.violation("note_without_reason", dict(label, field=w), da)
                elif da["kv"].get("note") != dep[0]:
                    rep.violation("note_differs_from_reason", dict(label, field=w), {"note": da["kv"].get("note"), "reason": dep[0]})
        keep = by_wire.get("keep")
        if c["style"] not in ("interface", "only_these") and (keep is None or dep_attr(keep) is not None):
            rep.violation("current_field_touched", label, keep)
        # nothing else in the module may be marked
        marked = [(s, wire(f)) for s, f in all_field_attrs(r["items"]) if dep_attr(f) is not None]
        expected_marked = {c["wires"]["f%d" % i] for i in range(4) if c["deps"][i] is not None} if strat == "warn" else set()
        extra = [m for m in marked if m[1] not in expected_marked or m[0] != c["holder"]]
        if extra:
            rep.violation("deprecated_attribute_elsewhere", label, extra)
        if len(samples) < 2000:
            samples.append({k: label[k] for k in ("assignment", "format", "style", "strategy")})
        take = c["fmt"] == "sdl" and (strat == "deny" or (strat == "warn" and c["strategy"] is None)) and \
            (tier == "thorough" or (sum(x * 3 ** i for i, x in enumerate(c["assign"])) % 4 == 0) or (c["style"] == "only_these" and 0 not in c["assign"]))
        if take:
            c["case"] = farm.add(Case(r["tokens"], [("op", "Op")], prelude="pub type Date = String;"))
    rb = resps[-1]
    if rb["status"] == "ok":
        st = find_struct(rb["items"], "OpT")
        f = next((f for f in st["fields"] if f["name"] == "f0"), None) if st else None
        da = dep_attr(f) if f else None
        want = 'block reason\nsecond "line"'
        if not da or da["kv"].get("note") != want:
            rep.violation("note_differs_from_reason", {"schema": block_sdl, "what": "block string reason"}, {"note": da and da["kv"].get("note"), "reason": want})
    else:
        rep.violation("generation_failed", {"schema": block_sdl}, rb.get("msg"))
    # ---- conformance on compiled code
    farm.build()
    freqs, fmeta = [], []
    for c in cases:
        cid = c.get("case")
        if not cid:
            continue
        fc = farm.cases[cid]
        if not fc.compiles:
            rep.violation("does_not_compile", c["label"], [(e["code"], e["message"][:150]) for e in fc.errors[:2]])
            continue
        inner = {"keep": 1} if c["style"] != "only_these" else {}
        for i in range(4):
            inner[c["wires"]["f%d" % i]] = sample_value(i, c.get("tset", "A"))
        if c["style"] in ("variant", "interface"):
            inner["__typename"] = "T"
            if c["style"] == "interface":
                inner.pop("keep")
        freqs.append({"case": cid, "module": "op", "what": "resp", "arg": {c["path"][0]: inner}})
        fmeta.append((c, inner))
    fres = farm.run(freqs)
    validated = 0
    for (c, inner), r in zip(fmeta, fres):
        validated += 1
        if not r or not r.get("ok"):
            rep.violation("payload_with_omitted_fields_rejected", dict(c["label"], payload=inner), (r or {}).get("err"))
            continue
        out = json.loads(r["out"])[c["path"][0]]
        strat = c["strategy"] or "warn"
        for i in range(4):
            w = c["wires"]["f%d" % i]
            present = w in out
            should = not (strat == "deny" and c["deps"][i] is not None)
            if present != should:
                rep.violation("compiled_field_presence", dict(c["label"], field=w), {"present": present, "expected": should})
    cov = {
        "states": states, "transitions": len(reqs) + validated, "traces_validated_against_impl": validated,
        "evaluations": len(reqs) + validated, "distinct_nontrivial": sum(1 for c in cases if any(c["assign"])),
        "rule": "state = (deprecation assignment in {current, deprecated, deprecated+reason}^4, schema format, selection style, "
                "strategy): the full product 81 x 2 x 5 x 4, plus every reason of the alphabet on every field position and a "
                "block-string reason; non-trivial = at least one selected field deprecated. Conformance = compiled deny / default "
                "modules fed a payload containing every field",
        "exhaustive": True, "modules_compiled": len(farm.cases),
        "samples": pick_samples(samples, 6),
    }
    return rep.finish(cov, ["a deprecation without reason is rendered in JSON as isDeprecated: true, deprecationReason: null"])
