"""C15 — Response / Error envelope accepts and preserves every spec-shaped body.

Deviation-bounded exhaustive enumeration of the response grammar (every optional member absent /
null / present, paths mixing names and indices, nested extension JSON, unknown extra members) fed
to the real `graphql_client::Response<T>` / `Error` (T = JSON object map and a derive-generated
ResponseData). Oracle = the envelope model below: parse succeeds, the parsed value re-serialises to
the model's value, deserialize(serialize(r)) == r, Display prints path:line:column: message.
Negative grammar: bodies the spec does not allow must be rejected.
"""
import itertools
import json

import gql
from common import Report, pick_samples, log, run_cases

ABSENT = "<absent>"

ENV_SCHEMA = gql.Schema([
    gql.iface("Node", [("id", "ID!")]),
    gql.obj("User", [("id", "ID!"), ("name", "String"), ("tags", "[String!]"), ("friend", "Node")], ["Node"]),
    gql.obj("Bot", [("id", "ID!"), ("version", "Int!")], ["Node"]),
    gql.obj("Q", [("me", "User"), ("node", "Node"), ("count", "Int!")]),
], {"query": "Q"})
ENV_DOC = gql.Doc([gql.Op("query", "EnvOp", [
    gql.Field("me", [gql.Field("id"), gql.Field("name"), gql.Field("tags")]),
    gql.Field("node", [gql.TN(), gql.Field("id"), gql.Inline("Bot", [gql.Field("version")])]),
    gql.Field("count")])])

PATH_ATOMS = ["user", 0]
PATHS = [ABSENT, None] + [list(p) for n in range(0, 4) for p in itertools.product(["user", 0], repeat=n)]
PATHS += [["0", 0], ["a", 2147483647, "é"], [-1]]
LOCATIONS = [[{"line": 3, "column": 7}], ABSENT, None, [], [{"line": 1, "column": 2}, {"line": 30, "column": 40}],
             [{"line": 2147483647, "column": 0, "extra": True}],
             # not in document order, and a tie on the line: "first" must mean first in the list
             [{"line": 30, "column": 40}, {"line": 1, "column": 2}], [{"line": 3, "column": 20}, {"line": 3, "column": 4}, {"line": 2, "column": 9}]]
EXTENSIONS = [{"code": "X"}, ABSENT, None, {}, {"n": 1.5, "deep": {"a": [1, None, {"b": "é"}], "t": True}, "z": None}]
MESSAGES = ["boom", "", "multi\nline: é \"q\""]
MAP_DATA = [{"a": 1, "b": {"c": [1, None, "x"]}}, ABSENT, None, {}]


def gen_data_vectors():
    ex = gql.Executor(ENV_SCHEMA, ENV_DOC)
    vecs = [p for _, _, p in gql.explore_choices(lambda ch: ex.build_payload(ENV_DOC.ops[0], ch), 1)]
    return vecs


def build_body(ch, gen_vectors):
    """Returns (t, body dict, model dict). Default choices give the richest body."""
    t = ["map", "gen"][ch(2, "T")]
    body = {}
    model = {"data": None, "errors": None, "extensions": None}
    if t == "map":
        d = MAP_DATA[ch(len(MAP_DATA), "data")]
    else:
        opts = gen_vectors + [ABSENT, None]
        d = opts[ch(len(opts), "data")]
    if d is not ABSENT:
        body["data"] = d
        model["data"] = d
    nerr = [1, ABSENT, None, 0, 2][ch(5, "errors")]
    if nerr is not ABSENT:
        if nerr is None:
            body["errors"] = None
        else:
            errs, merrs = [], []
            for i in range(nerr):
                e = {"message": MESSAGES[ch(len(MESSAGES), "message%d" % i)]}
                me = {"message": e["message"], "locations": None, "path": None, "extensions": None}
                loc = LOCATIONS[ch(len(LOCATIONS), "locations%d" % i)]
                if loc is not ABSENT:
                    e["locations"] = loc
                    me["locations"] = None if loc is None else [{"line": l["line"], "column": l["column"]} for l in loc]
                p = PATHS[(ch(len(PATHS), "path%d" % i) + 3) % len(PATHS)]  # default: ["user"]-like non-trivial path
                if p is not ABSENT:
                    e["path"] = p
                    me["path"] = p
                x = EXTENSIONS[ch(len(EXTENSIONS), "eext%d" % i)]
                if x is not ABSENT:
                    e["extensions"] = x
                    me["extensions"] = x
                if ch(2, "eextra%d" % i) == 1:
                    e["unknownMember"] = {"x": [1]}
                errs.append(e)
                merrs.append(me)
            body["errors"] = errs
            model["errors"] = merrs
    x = EXTENSIONS[ch(len(EXTENSIONS), "ext")]
    if x is not ABSENT:
        body["extensions"] = x
        model["extensions"] = x
    if ch(2, "extra") == 1:
        body["unknownTopLevel"] = [1, {"a": None}]
    return t, body, model


def display_model(me):
    path = "<query>" if me["path"] is None else "/".join(str(x) for x in me["path"])
    loc = me["locations"][0] if me["locations"] else {"line": 0, "column": 0}
    return "%s:%d:%d: %s" % (path, loc["line"], loc["column"], me["message"])


NEGATIVE = [
    ("error without message", {"errors": [{"locations": []}]}),
    ("message null", {"errors": [{"message": None}]}),
    ("message number", {"errors": [{"message": 3}]}),
    ("float path index", {"errors": [{"message": "m", "path": ["a", 1.5]}]}),
    ("boolean path element", {"errors": [{"message": "m", "path": [True]}]}),
    ("null path element", {"errors": [{"message": "m", "path": [None]}]}),
    ("path index beyond i32", {"errors": [{"message": "m", "path": [2147483648]}]}),
    ("location without column", {"errors": [{"message": "m", "locations": [{"line": 1}]}]}),
    ("location line string", {"errors": [{"message": "m", "locations": [{"line": "1", "column": 1}]}]}),
    ("errors is an object", {"errors": {}}),
    ("errors contains null", {"errors": [None]}),
    ("extensions is a list", {"extensions": [1]}),
    ("error extensions is a string", {"errors": [{"message": "m", "extensions": "x"}]}),
    ("data is a string (map T)", {"data": "x"}),
    ("data is a list (map T)", {"data": [1]}),
    ("body is a list", []),
    ("body is null", None),
]


def same_json(a, b):
    """Equality of JSON values with numbers compared numerically but never equal to booleans."""
    if isinstance(a, bool) or isinstance(b, bool):
        return a is b
    if isinstance(a, (int, float)) and isinstance(b, (int, float)):
        return a == b
    if type(a) is not type(b):
        return False
    if isinstance(a, dict):
        return set(a) == set(b) and all(same_json(a[k], b[k]) for k in a)
    if isinstance(a, list):
        return len(a) == len(b) and all(same_json(x, y) for x, y in zip(a, b))
    return a == b


def run(tier):
    rep = Report("C15", "exploration", tier)
    gen_vectors = gen_data_vectors()
    dev = 3 if tier == "quick" else 4
    cases = []
    for choices, labels, (t, body, model) in gql.explore_choices(lambda ch: build_body(ch, gen_vectors), dev):
        cases.append((choices, t, body, model))
    reqs = [{"op": "env_response", "t": t, "body": json.dumps(body, ensure_ascii=(i % 2 == 0))} for i, (c, t, body, m) in enumerate(cases)]
    # Error alone
    err_cases = []
    for m, loc, p, x in itertools.product(MESSAGES, LOCATIONS, PATHS, EXTENSIONS):
        e = {"message": m}
        me = {"message": m, "locations": None, "path": None, "extensions": None}
        if loc is not ABSENT:
            e["locations"] = loc
            me["locations"] = None if loc is None else [{"line": l["line"], "column": l["column"]} for l in loc]
        if p is not ABSENT:
            e["path"] = p
            me["path"] = p
        if x is not ABSENT:
            e["extensions"] = x
            me["extensions"] = x
        err_cases.append((e, me))
    ereqs = [{"op": "env_error", "body": json.dumps(e)} for e, _ in err_cases]
    nreqs = [{"op": "env_response", "t": "map", "body": json.dumps(b)} for _, b in NEGATIVE]
    nreqs += [{"op": "env_error", "body": json.dumps(b["errors"][0])} for d, b in NEGATIVE
              if isinstance(b, dict) and isinstance(b.get("errors"), list) and b["errors"] and b["errors"][0] is not None]
    log(f"[C15] {len(reqs)} response bodies (deviation bound {dev}), {len(ereqs)} error values, {len(nreqs)} negative bodies")
    resps = run_cases(reqs + ereqs + nreqs)
    r1, r2, r3 = resps[:len(reqs)], resps[len(reqs):len(reqs) + len(ereqs)], resps[len(reqs) + len(ereqs):]
    outcomes = {}
    distinct = set()
    samples = []
    ex = gql.Executor(ENV_SCHEMA, ENV_DOC)
    for (choices, t, body, model), r in zip(cases, r1):
        label = {"T": t, "body": body}
        distinct.add(json.dumps([t, body], sort_keys=True))
        if r.get("status") != "ok":
            rep.violation("worker", label, r)
            continue
        if r["parse"] != "ok":
            outcomes["rejected"] = outcomes.get("rejected", 0) + 1
            rep.violation("spec_shaped_body_rejected", label, r.get("msg"))
            continue
        outcomes["accepted"] = outcomes.get("accepted", 0) + 1
        reser = json.loads(r["reser"])
        problems = []
        if not set(reser) <= {"data", "errors", "extensions"}:
            problems.append("members %s" % sorted(reser))
        # how `None` is written (explicit null or member left out) is not part of the property
        for k in ("data", "errors", "extensions"):
            reser.setdefault(k, None)
        for e in (reser["errors"] or []):
            if isinstance(e, dict):
                for k in ("locations", "path", "extensions"):
                    e.setdefault(k, None)
        if t == "gen" and isinstance(model["data"], dict):
            diffs = ex.compare(ENV_DOC.ops[0], model["data"], reser.get("data"))
            if diffs:
                problems.append("data: %s" % diffs[:3])
        elif not same_json(reser.get("data"), model["data"]):
            problems.append("data %r != %r" % (reser.get("data"), model["data"]))
        if not same_json(reser.get("errors"), model["errors"]):
            problems.append("errors %s != %s" % (json.dumps(reser.get("errors"))[:200], json.dumps(model["errors"])[:200]))
        if not same_json(reser.get("extensions"), model["extensions"]):
            problems.append("extensions %r != %r" % (reser.get("extensions"), model["extensions"]))
        if not r["roundtrip_equal"]:
            problems.append("deserialize(serialize(r)) != r")
        if r.get("via_value_equal") is False:
            problems.append("from_value and from_str disagree")
        want_disp = [display_model(me) for me in (model["errors"] or [])]
        if r["displays"] != want_disp:
            problems.append("Display %r != %r" % (r["displays"], want_disp))
        if problems:
            rep.violation("content_not_preserved", label, problems)
        elif len(samples) < 2000:
            samples.append({"T": t, "body": body, "display": r["displays"]})
    for (e, me), r in zip(err_cases, r2):
        distinct.add(json.dumps(["error", e], sort_keys=True))
        label = {"error_body": e}
        if r.get("status") != "ok" or r.get("parse") != "ok":
            rep.violation("spec_shaped_error_rejected", label, r)
            continue
        problems = []
        er = json.loads(r["reser"])
        for k in ("locations", "path", "extensions"):
            er.setdefault(k, None)
        if not same_json(er, me):
            problems.append("reser %s != %s" % (r["reser"][:200], json.dumps(me)[:200]))
        if not r["roundtrip_equal"]:
            problems.append("roundtrip")
        if r["display"] != display_model(me):
            problems.append("Display %r != %r" % (r["display"], display_model(me)))
        if problems:
            rep.violation("error_not_preserved", label, problems)
    neg_labels = [d for d, _ in NEGATIVE] + [d + " (Error alone)" for d, b in NEGATIVE
                                            if isinstance(b, dict) and isinstance(b.get("errors"), list) and b["errors"] and b["errors"][0] is not None]
    for d, q, r in zip(neg_labels, nreqs, r3):
        distinct.add(q["body"])
        if r.get("status") == "ok" and r.get("parse") == "ok":
            rep.violation("malformed_body_accepted", {"what": d, "body": q["body"]}, r.get("reser"))
        else:
            outcomes["negative_rejected"] = outcomes.get("negative_rejected", 0) + 1
    cov = {
        "evaluations": len(resps), "distinct_nontrivial": len(distinct),
        "rule": "response bodies = all choice vectors of the grammar (T, data, errors count, per error message x locations "
                "x path x extensions x extra member, top-level extensions, extra member) within deviation bound %d of the "
                "richest body; Error values = full product messages x locations x paths (all sequences of length <= 3 over "
                "{name, index} + boundary paths) x extensions; plus the negative catalogue; distinct = distinct body texts" % dev,
        "deviation_bound": dev, "error_values_full_product": len(err_cases), "negative_bodies": len(nreqs),
        "distinct_outcomes": outcomes, "exhaustive": False,
        "samples": pick_samples(samples, 6),
    }
    return rep.finish(cov, ["path keys are non-empty GraphQL names without '/', indices within i32",
                            "T ranges over a JSON object map and one derive-generated ResponseData"])
