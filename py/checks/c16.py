"""C16 — ID fields accept strings and integers, canonically, wherever ID appears.

(a) The two helper functions of the real `graphql_client::serde_with`, through four deserialiser
paths (from_str, from_value, #[serde(flatten)] buffering, internally tagged enum buffering), on the
full product of the value alphabet. (b) Where code generation attaches them: every ID type
expression of list depth <= 2 x {plain field, alias, inside a spread fragment, inside an
inline-fragment variant}; the attribute must sit on exactly the ID-typed fields (token level), the
module must compile, and both spellings must be accepted at every list level (farm).
"""
import json

import gql
from gql import Field, Inline, Spread, FragDef, Op, Doc, TN
from common import Report, pick_samples, log, run_cases
from farm import Farm, Case
from genlib import gen_request, generate

I64_MIN, I64_MAX = -9223372036854775808, 9223372036854775807
INTS = [I64_MIN, I64_MIN + 1, -(2 ** 53) - 1, -1, 0, 1, 2 ** 53 + 1, I64_MAX - 1, I64_MAX]
STRS = ["", "0", "007", "-1", "1e3", "é", "x" * 1024, " 7 ", "null"]
REJECT = ["1.0", "1.5", "true", "false", "[]", "[1]", "{}", '{"a":1}', "1e2"]


def helper_cases():
    out = []
    for which in ("req", "opt"):
        for via in ("str", "value", "flatten", "tagged"):
            prefix = '{"__typename":"A",' if via == "tagged" else "{"
            for n in INTS:
                out.append((which, via, prefix + '"id":%d}' % n, ("ok", str(n)), "int %d" % n))
            for s in STRS:
                out.append((which, via, prefix + '"id":%s}' % json.dumps(s, ensure_ascii=False), ("ok", s), "string %r" % s[:12]))
            for lit in REJECT:
                out.append((which, via, prefix + '"id":%s}' % lit, ("err", None), "kind %s" % lit))
            out.append((which, via, prefix + '"id":null}', ("ok", None) if which == "opt" else ("err", None), "null"))
            out.append((which, via, prefix + '"id":7,"other":[1]}', ("ok", "7"), "int with unknown sibling"))
    return out


def id_schema(exprs):
    fields = [gql.FieldDef("i%d" % k, t) for k, t in enumerate(exprs)]
    # the same expressions once more on deprecated fields (with / without a reason): the coercion and the
    # `#[deprecated]` attribute are independent of each other
    fields += [gql.FieldDef("d%d" % k, t, dep=(("old id",) if k % 2 else (None,))) for k, t in enumerate(exprs)]
    return gql.Schema([
        gql.iface("Node", [("s", "String")]),
        # `id` is NOT of type ID and `name`-like fields are: the coercion follows the type, never the name
        gql.obj("T", fields + [gql.FieldDef("s", "String"), gql.FieldDef("n", "Int"), gql.FieldDef("id", "String"), gql.FieldDef("ID", "Int")], ["Node"]),
        gql.obj("Other", [("s", "String")], ["Node"]),
        gql.obj("Q", [("t", "T"), ("node", "Node")]),
    ], {"query": "Q"})


POSITIONS = ["plain", "alias", "spread", "variant", "conditional", "conditional_variant", "deprecated", "deprecated_variant"]
COND = [("include", "c")]
CVARS = [("c", "Boolean!", None)]


def op_for(position, k):
    f = "i%d" % k
    if position == "plain":
        return Doc([Op("query", "Op", [Field("t", [Field(f), Field("s"), Field("id")])])]), ["t"], f
    if position == "deprecated":
        return Doc([Op("query", "Op", [Field("t", [Field("d%d" % k), Field("s"), Field("id")])])]), ["t"], "d%d" % k
    if position == "deprecated_variant":
        return Doc([Op("query", "Op", [Field("node", [TN(), Inline("T", [Field("d%d" % k), Field("n"), Field("ID")])])])]), ["node"], "d%d" % k
    if position == "alias":
        return Doc([Op("query", "Op", [Field("t", [Field(f, alias="a"), Field("s"), Field("id")])])]), ["t"], "a"
    if position == "spread":
        return Doc([FragDef("F", "T", [Field(f)]), Op("query", "Op", [Field("t", [Field("s"), Field("id"), Spread("F")])])]), ["t"], f
    if position == "conditional":
        # the field carries @include: the server may leave it out, so the Rust field is optional whatever the schema says
        return Doc([Op("query", "Op", [Field("t", [Field(f, directives=COND), Field("s"), Field("id")])], CVARS)]), ["t"], f
    if position == "conditional_variant":
        return Doc([Op("query", "Op", [Field("node", [TN(), Inline("T", [Field(f, directives=COND), Field("n"), Field("ID")])])], CVARS)]), ["node"], f
    return Doc([Op("query", "Op", [Field("node", [TN(), Inline("T", [Field(f), Field("n"), Field("ID")])])])]), ["node"], f


def value_of(t, leaf, null_at=None, level=0):
    if null_at == level:
        return None
    inner = t[1] if t[0] == "NN" else t
    if inner[0] == "L":
        return [value_of(inner[1], leaf, null_at, level + 1), value_of(inner[1], leaf, None, level + 1)]
    return leaf


def canon(v):
    if isinstance(v, list):
        return [canon(x) for x in v]
    if isinstance(v, int) and not isinstance(v, bool):
        return str(v)
    return v


def depth_of(t):
    d = 0
    while t[0] != "N":
        if t[0] == "L":
            d += 1
        t = t[1]
    return d


def nullable_at(t, level):
    cur = t
    for _ in range(level):
        cur = cur[1] if cur[0] == "NN" else cur
        cur = cur[1]
    return cur[0] != "NN"


def all_fields(items):
    for it in items:
        if it["kind"] == "mod":
            yield from all_fields(it["items"])
        elif it["kind"] == "struct":
            for f in it["fields"]:
                yield it["name"], f


def run(tier):
    rep = Report("C16", "exploration", tier)
    # ---------------------------------------------------------------- (a) helpers
    hc = helper_cases()
    hres = run_cases([{"op": "env_id", "which": w, "via": v, "doc": d} for w, v, d, _, _ in hc])
    outcomes = {}
    distinct = set()
    for (which, via, doc, (want, val), desc), r in zip(hc, hres):
        distinct.add((which, via, doc))
        label = {"helper": "deserialize_id" if which == "req" else "deserialize_option_id", "via": via, "doc": doc[:120], "what": desc}
        if r.get("status") != "ok":
            rep.violation("worker", label, r)
            continue
        got = (r["parse"], r.get("value") if r["parse"] == "ok" else None)
        outcomes[r["parse"]] = outcomes.get(r["parse"], 0) + 1
        if got != (want, val):
            rep.violation("helper_result", label, "got %r, the property says %r" % ((got[0], str(got[1])[:40]), (want, str(val)[:40])))
    # ---------------------------------------------------------------- (b) attachment
    exprs = gql.all_type_exprs("ID", 2 if tier == "quick" else 3)
    schema = id_schema(exprs)
    sdl = schema.sdl()
    mods = []
    for k, t in enumerate(exprs):
        for pos in POSITIONS:
            doc, holder_path, wire = op_for(pos, k)
            mods.append({"k": k, "t": t, "pos": pos, "doc": doc, "holder": holder_path, "wire": wire})
    # the same modules from an SDL that spells out the built-in scalar (`scalar ID`): still the ID type
    for k, t in enumerate(exprs):
        if k % 2 == 0 or tier == "thorough":
            for pos in POSITIONS:
                doc, holder_path, wire = op_for(pos, k)
                mods.append({"k": k, "t": t, "pos": pos, "doc": doc, "holder": holder_path, "wire": wire, "declared": True})
    # ... and under other option sets: where the coercion is attached must not depend on options
    OPTION_SETS = [{"deprecation": "allow"}, {"custom_scalars_module": "crate::scalars"}, {"normalization": "rust", "skip_none": True, "other_variant": True},
                   {"deprecation": "deny", "response_derives": "Serialize,Debug,Clone"}]
    for k, t in enumerate(exprs):
        for oi, o in enumerate(OPTION_SETS):
            if (k + oi) % 2 == 0 or tier == "thorough":
                for pos in POSITIONS:
                    doc, holder_path, wire = op_for(pos, k)
                    mods.append({"k": k, "t": t, "pos": pos, "doc": doc, "holder": holder_path, "wire": wire, "opts": o})
    from genlib import DEFAULT_OPTS
    resps = generate([gen_request(("scalar ID\nscalar String\n" + sdl) if m.get("declared") else sdl, gql.render_doc(m["doc"]),
                                  dict(DEFAULT_OPTS, **m["opts"]) if m.get("opts") else None, inspect=True) for m in mods])
    farm = Farm("c16")
    for m, r in zip(mods, resps):
        label = {"type_expr": gql.type_str(m["t"]), "position": m["pos"], "query": gql.render_doc(m["doc"]), "sdl_declares_scalar_ID": bool(m.get("declared")), "options": m.get("opts") or "default"}
        m["label"] = label
        if r["status"] != "ok":
            rep.violation("generation_failed", label, r.get("msg"))
            continue
        n_id, n_other = 0, 0
        for sname, f in all_fields(r["items"]):
            dw = None
            for a in f["attrs"]:
                if a["path"] == "serde" and "deserialize_with" in a["kv"]:
                    dw = a["kv"]["deserialize_with"]
            is_id = "ID" in f["ty"].replace("Option<", " ").replace("Vec<", " ").replace(">", " ").split()
            if is_id:
                n_id += 1
                if not dw or not dw.startswith("graphql_client::serde_with::deserialize_"):
                    rep.violation("id_field_without_helper", dict(label, field=f["name"]), f)
            else:
                n_other += 1
                if dw:
                    rep.violation("helper_on_non_id_field", dict(label, field=f["name"], ty=f["ty"]), dw)
        denied = m["pos"].startswith("deprecated") and (m.get("opts") or {}).get("deprecation") == "deny"
        if n_id != (0 if denied else 1):
            rep.violation("id_field_count", label, "expected exactly %s ID-typed struct field, found %d" % ("no" if denied else "one", n_id))
        m["denied"] = denied
        m["case"] = farm.add(Case(r["tokens"], [("op", "Op")]))
    farm.build()
    freqs, fmeta = [], []
    for m in mods:
        cid = m.get("case")
        if not cid:
            continue
        c = farm.cases[cid]
        distinct.add((gql.type_str(m["t"]), m["pos"], bool(m.get("declared")), json.dumps(m.get("opts"), sort_keys=True)))
        sigs = set()
        if depth_of(m["t"]) > 0:
            sigs.add("id_field_with_list_qualifier")
        if not c.compiles:
            rep.violation("does_not_compile", m["label"], [(e["code"], e["message"][:160]) for e in c.errors[:2]], sigs)
            continue

        def payload(v, absent=False):
            inner = {"s": "x"}
            if m["pos"] in ("variant", "conditional_variant", "deprecated_variant"):
                inner = {"__typename": "T", "n": 1}
            if not absent:
                inner[m["wire"]] = v
            return {m["holder"][0]: inner}

        t = m["t"]
        if m.get("denied"):
            # `deny` leaves the field out of the struct; payloads that carry it still deserialise
            freqs.append({"case": cid, "module": "op", "what": "resp", "arg": payload(value_of(t, 7))})
            fmeta.append((m, "accept_only", None, "field omitted under deny, payload still carries it"))
            continue
        if m["pos"].startswith("conditional") and t[0] == "NN":
            t = t[1]   # the response type of a conditional field is nullable at the outermost level
        for leaf in ("x", 7, "007", I64_MIN):
            v = value_of(t, leaf)
            for what in ("resp", "resp_str"):
                freqs.append({"case": cid, "module": "op", "what": what, "arg": payload(v) if what == "resp" else json.dumps(payload(v))})
                fmeta.append((m, "accept", canon(v), "leaf %r" % (leaf,)))
        for level in range(depth_of(t) + 1):
            v = value_of(t, 7, null_at=level)
            freqs.append({"case": cid, "module": "op", "what": "resp", "arg": payload(v)})
            fmeta.append((m, "accept" if nullable_at(t, level) else "reject", canon(v), "null at level %d" % level))
        for bad in (1.5, True, {"a": 1}):
            v = value_of(t, bad)
            freqs.append({"case": cid, "module": "op", "what": "resp", "arg": payload(v)})
            fmeta.append((m, "reject", None, "leaf %r" % (bad,)))
        freqs.append({"case": cid, "module": "op", "what": "resp", "arg": payload(None, absent=True)})
        fmeta.append((m, "accept_absent" if t[0] != "NN" else "reject", None, "key absent"))
    fres = farm.run(freqs)
    for (m, want, val, desc), r, q in zip(fmeta, fres, freqs):
        ok = bool(r and r.get("ok"))
        label = dict(m["label"], vector=desc, payload=q["arg"] if not isinstance(q["arg"], str) else q["arg"][:300])
        if want in ("accept", "accept_absent", "accept_only"):
            if not ok:
                sigs = {"nullable_id_absent"} if want == "accept_absent" else set()
                rep.violation("id_value_rejected", label, (r or {}).get("err"), sigs)
                continue
            if want == "accept":
                out = json.loads(r["out"])
                got = out[m["holder"][0]].get(m["wire"])
                if got != val:
                    rep.violation("id_not_canonical", label, "re-serialised %r, expected %r" % (got, val))
        elif ok:
            rep.violation("non_id_value_accepted", label, r.get("out"))
    cov = {
        "evaluations": len(hc) + len(mods) + len(freqs), "distinct_nontrivial": len(distinct),
        "rule": "(a) helpers: full product {deserialize_id, deserialize_option_id} x {from_str, from_value, flatten, "
                "internally tagged} x {9 boundary integers, 9 strings, 9 rejected literals, null, unknown sibling}; "
                "(b) every ID type expression of list depth <= %d x {plain, alias, spread fragment, inline-fragment variant}: "
                "attribute placement at token level, compile verdict, and per module string / integer / padded-string / "
                "i64::MIN leaves, a null at every list level, three wrong kinds and an absent key; distinct = distinct "
                "helper inputs + distinct (type expression, position) modules" % (2 if tier == "quick" else 3),
        "helper_cases": len(hc), "modules": len(mods), "module_vectors": len(freqs), "distinct_outcomes": outcomes,
        "exhaustive": False,
        "samples": pick_samples([m["label"] for m in mods], 5) + pick_samples([{"helper": w, "via": v, "doc": d[:60]} for w, v, d, _, _ in hc], 3),
    }
    return rep.finish(cov, ["integers outside i64 are not specified by the property and not enumerated"])
