"""C17 — code generation terminates cleanly on every input, cyclic ones included.

Exhaustive enumeration of an adversarial grammar; each input is handed to the real generator in an
isolated worker process that prints a BEGIN marker first, so death by signal (stack overflow,
abort) or a hang is attributed to the input that caused it. Oracle: the worker answers ok / err /
panic-with-message within the time limit.
"""
import json
import os
import re

import gql
import space
from gql import Field, Inline, Spread, FragDef, Op, Doc, TN
from common import Report, pick_samples, log, scratch_file, sha
from genlib import generate, DEFAULT_OPTS

CYCLE_SCHEMA = """schema { query: Q }
interface I { id: ID next: I peer: [I!] }
interface Lonely { id: ID }
type O implements I { id: ID next: I peer: [I!] self: O others: [O] }
type P implements I { id: ID next: I peer: [I!] }
union U = O | P
type Q { o: O i: I u: U lonely: Lonely q: Q }
"""


def cycle_cases(max_len):
    """Spread cycles of length 1..max_len on object / interface / union types."""
    out = []
    hosts = {"O": ("o", ["id"], "self"), "I": ("i", ["id"], "next"), "U": ("u", [], None)}
    for tname, (root_field, plain, via_field) in hosts.items():
        for n in range(1, max_len + 1):
            for typename in ("none", "first", "last"):
                for through in ("direct", "field"):
                    if through == "field" and via_field is None:
                        continue
                    for used in (True, False, "entry_direct", "entry_field"):
                        for mixed in (False, True):
                            if mixed and (n < 2 or tname == "U"):
                                continue
                            if used == "entry_field" and via_field is None:
                                continue
                            frs = []
                            for i in range(n):
                                nxt = Spread("F%d" % ((i + 1) % n))
                                body = [Field(p) for p in plain]
                                if through == "direct":
                                    body.append(nxt)
                                else:
                                    inner = [nxt] if tname == "O" else [TN(), nxt]
                                    body.append(Field(via_field, inner))
                                if typename == "first":
                                    body = [TN()] + body
                                elif typename == "last":
                                    body = body + [TN()]
                                on = tname
                                if mixed and i % 2 == 1:
                                    on = {"O": "I", "I": "O"}[tname]
                                    body = [b for b in body if not (isinstance(b, Field) and b.name == "self")]
                                frs.append(FragDef("F%d" % i, on, body))
                            if used == "entry_direct":
                                # a fragment that is not on the cycle itself but leads into it
                                frs.append(FragDef("Entry", tname, ([TN()] if tname != "O" else []) + [Spread("F0")]))
                            elif used == "entry_field":
                                inner = [Spread("F0")] if tname == "O" else [TN(), Spread("F0")]
                                frs.append(FragDef("Entry", tname, ([TN()] if tname != "O" else []) + [Field(p) for p in plain] + [Field(via_field, inner)]))
                            spread = [Spread("Entry")] if used in ("entry_direct", "entry_field") else ([Spread("F0")] if used else [Field("id")] if plain else [])
                            sel = [Field(root_field, ([TN()] if tname != "O" else []) + spread)]
                            if not sel[0].sel:
                                sel = [Field(root_field, [TN()])]
                            doc = Doc(frs + [Op("query", "Op", sel)])
                            out.append({"family": "spread_cycle", "desc": "type=%s len=%d typename=%s through=%s used=%s mixed=%s" %
                                        (tname, n, typename, through, used, mixed),
                                        "schema": CYCLE_SCHEMA, "ext": "graphql", "query": gql.render_doc(doc)})
    return out


def abstract_hop_cycle_cases(max_len):
    """Cycles of fragments on an OBJECT type whose hops go through an interface-typed field, with and without the
    `__typename` the library demands there (without: an error must come out, whatever the shape of the cycle), with
    the fragments defined before and after the operation, and spread first from inside or outside the cycle."""
    out = []
    for n in range(1, max_len + 1):
        for tn_in_hop in (False, True):
            for order in ("fragments_first", "operation_first", "reversed_fragments_first"):
                for entry in ("cycle", "outside"):
                    frs = []
                    for i in range(n):
                        nxt = Spread("F%d" % ((i + 1) % n))
                        frs.append(FragDef("F%d" % i, "O", [Field("id"), Field("next", ([TN()] if tn_in_hop else []) + [nxt])]))
                    if entry == "outside":
                        frs.append(FragDef("Entry", "O", [Field("id"), Spread("F0")]))
                    op = Op("query", "Op", [Field("o", [Spread("Entry" if entry == "outside" else "F0")])])
                    defs = {"fragments_first": frs + [op], "operation_first": [op] + frs, "reversed_fragments_first": frs[::-1] + [op]}[order]
                    out.append({"family": "spread_cycle_abstract_hop", "desc": "len=%d typename_in_hop=%s order=%s entry=%s" % (n, tn_in_hop, order, entry),
                                "schema": CYCLE_SCHEMA, "ext": "graphql", "query": gql.render_doc(Doc(defs))})
    return out


def spread_only_cycle_cases(max_len):
    """Cycles of fragments whose whole body is one spread (the shape that is generated as a type alias), on object,
    interface and union types, reached directly, next to a field, or through an entry fragment that is itself only a spread."""
    out = []
    for tname, root_field in (("O", "o"), ("I", "i"), ("U", "u")):
        for n in range(1, max_len + 1):
            for entry in ("direct", "with_sibling", "alias_entry"):
                frs = [FragDef("F%d" % i, tname, [Spread("F%d" % ((i + 1) % n))]) for i in range(n)]
                if entry == "alias_entry":
                    frs.append(FragDef("Entry", tname, [Spread("F0")]))
                first = Spread("Entry" if entry == "alias_entry" else "F0")
                body = [first] if entry != "with_sibling" else ([TN()] if tname != "O" else [Field("id")]) + [first]
                for order in ("fragments_first", "operation_first"):
                    op = Op("query", "Op", [Field(root_field, body)])
                    defs = frs + [op] if order == "fragments_first" else [op] + frs
                    out.append({"family": "spread_only_cycle", "desc": "type=%s len=%d entry=%s order=%s" % (tname, n, entry, order),
                                "schema": CYCLE_SCHEMA, "ext": "graphql", "query": gql.render_doc(Doc(defs))})
    return out


ROOT_CYCLE_SCHEMA = CYCLE_SCHEMA.replace("schema { query: Q }", "schema { query: Q mutation: M subscription: S }") + \
    "type M { o: O bump: Int q: Q }\ntype S { o: O tick: Int }\n"


def root_cycle_cases(max_len):
    """Spread cycles on the ROOT type of a query / mutation / subscription, reached directly from the operation's own
    selection set (spreads and inline fragments only: nothing of it sits below a field)."""
    out = []
    for kind, root in (("query", "Q"), ("mutation", "M"), ("subscription", "S")):
        for n in range(1, max_len + 1):
            for body in ("field_and_spread", "spread_only", "via_inline"):
                frs = []
                for i in range(n):
                    nxt = Spread("F%d" % ((i + 1) % n))
                    if body == "field_and_spread":
                        sel = [Field("o", [Field("id")]), nxt]
                    elif body == "spread_only":
                        sel = [nxt]
                    else:
                        sel = [Field("o", [Field("id")]), Inline(root, [nxt])]
                    frs.append(FragDef("F%d" % i, root, sel))
                for opsel in ([Spread("F0")], [Inline(root, [Spread("F0")])], [Field("o", [Field("id")], alias="first"), Spread("F0")]):
                    for order in ("fragments_first", "operation_first"):
                        op = Op(kind, "Op", opsel)
                        defs = frs + [op] if order == "fragments_first" else [op] + frs
                        out.append({"family": "root_spread_cycle", "desc": "%s len=%d body=%s op=%s order=%s" % (kind, n, body, gql.render_doc(Doc([op]))[:40].replace("\n", " "), order),
                                    "schema": ROOT_CYCLE_SCHEMA, "ext": "graphql", "query": gql.render_doc(Doc(defs))})
    return out


def input_cycle_cases():
    out = []
    kinds = ["%s", "%s!", "[%s]", "[%s!]!"]
    for n in (1, 2, 3, 4):
        for k in kinds:
            for one_of in (False, True):
                names = ["In%d" % i for i in range(n)]
                defs = []
                for i, nm in enumerate(names):
                    t = k % names[(i + 1) % n]
                    if one_of and t.endswith("!") and not t.startswith("["):
                        continue
                    defs.append("input %s%s { next: %s other: %s v: Int }" % (nm, " @oneOf" if one_of and i == 0 else "", t, k % names[0]))
                if len(defs) != n:
                    continue
                schema = "schema { query: Q }\ntype Q { f(a: In0): Int }\n" + "\n".join(defs) + "\n"
                out.append({"family": "input_cycle", "desc": "len=%d edge=%s oneOf=%s" % (n, k % "T", one_of), "schema": schema,
                            "ext": "graphql", "query": "query Op($a: In0) { f(a: $a) }\n"})
                # the variable declares a default: object literals that leave the cyclic members out, spell one level out,
                # are empty, null them, or put a list there (complete or not - the generator has to answer, not to loop)
                for di, lit in enumerate(["{v: 1}", "{}", "{next: null}", "{next: {v: 2}}", "{next: {next: {v: 3}}, other: {v: 4}}",
                                          "{next: [], other: []}", "{next: [{v: 5}], v: 1}", "null"]):
                    out.append({"family": "input_cycle", "desc": "len=%d edge=%s oneOf=%s default=%s" % (n, k % "T", one_of, lit), "schema": schema,
                                "ext": "graphql", "query": "query Op($a: In0 = %s, $b: [In0!] = [%s]) { f(a: $a) }\n" % (lit, lit)})
    return out


def nesting_cases(depths):
    out = []
    for d in depths:
        q = "query Op { o " + "{ self " * d + "{ id }" + " }" * d + " }\n"
        out.append({"family": "selection_nesting", "desc": "depth=%d" % d, "schema": CYCLE_SCHEMA, "ext": "graphql", "query": q})
        q = "query Op { i " + "{ __typename next " * d + "{ __typename id }" + " }" * d + " }\n"
        out.append({"family": "selection_nesting_abstract", "desc": "depth=%d" % d, "schema": CYCLE_SCHEMA, "ext": "graphql", "query": q})
        q = "query Op { i { __typename " + "... on O { next { __typename " * d + "id" + " } }" * d + " } }\n"
        out.append({"family": "inline_nesting", "desc": "depth=%d" % d, "schema": CYCLE_SCHEMA, "ext": "graphql", "query": q})
        for bang in ("", "!"):
            tt = "[" * d + "Int" + bang + ("]" + bang) * d
            schema = "schema { query: Q }\ntype Q { deep: %s f(a: %s): Int }\ninput In { x: %s }\n" % (tt, tt, tt)
            out.append({"family": "list_nesting", "desc": "depth=%d bang=%r" % (d, bang), "schema": schema, "ext": "graphql",
                        "query": "query Op($a: %s) { deep f(a: $a) }\n" % tt})
    return out


def odd_schema_cases():
    out = []
    q_lonely = "query Op { lonely { __typename id } }\n"
    out.append({"family": "no_implementors", "desc": "interface without implementors", "schema": CYCLE_SCHEMA, "ext": "graphql", "query": q_lonely})
    for desc, sdl, q in [
        ("union without members", "schema { query: Q }\nunion E\ntype Q { e: E }\n", "query Op { e { __typename } }\n"),
        ("union with itself as member", "schema { query: Q }\nunion S = S\ntype Q { s: S }\n", "query Op { s { __typename ... on S { __typename } } }\n"),
        ("union of unions", "schema { query: Q }\ntype A { x: Int }\nunion S = A | T\nunion T = S\ntype Q { s: S }\n", "query Op { s { __typename ... on T { __typename } } }\n"),
        ("interface implements itself", "schema { query: Q }\ninterface I implements I { id: ID }\ntype Q { i: I }\n", "query Op { i { __typename id } }\n"),
        ("object implements unknown interface", "schema { query: Q }\ntype A implements Nope { id: ID }\ntype Q { a: A }\n", "query Op { a { id } }\n"),
        ("field of unknown type", "schema { query: Q }\ntype Q { a: Nope }\n", "query Op { a }\n"),
        ("no query type", "type A { x: Int }\n", "query Op { x }\n"),
        ("query type is not an object", "schema { query: Q }\ninterface Q { x: Int }\n", "query Op { x }\n"),
        ("duplicate type names", "schema { query: Q }\ntype Q { x: Int }\ntype Q { y: Int }\n", "query Op { x y }\n"),
        ("duplicate fragments", "schema { query: Q }\ntype Q { x: Int }\n", "fragment F on Q { x }\nfragment F on Q { x }\nquery Op { ...F }\n"),
        ("duplicate operations", "schema { query: Q }\ntype Q { x: Int }\n", "query Op { x }\nquery Op { x }\n"),
        ("variable of unknown type", "schema { query: Q }\ntype Q { x: Int }\n", "query Op($a: Nope) { x }\n"),
        ("variable of object type", "schema { query: Q }\ntype Q { x: Int }\n", "query Op($a: Q) { x }\n"),
        ("double bang variable", "schema { query: Q }\ntype Q { x: Int }\n", "query Op($a: Int!!) { x }\n"),
        ("inline fragment without condition", "schema { query: Q }\ntype Q { x: Int }\n", "query Op { ... { x } }\n"),
        ("default null", "schema { query: Q }\ntype Q { x: Int }\n", "query Op($a: Int = null) { x }\n"),
        ("default variable", "schema { query: Q }\ntype Q { x: Int }\n", "query Op($a: Int = $b) { x }\n"),
        ("default object on scalar", "schema { query: Q }\ntype Q { x: Int }\n", "query Op($a: Int = {a: 1}) { x }\n"),
        ("empty query file", "schema { query: Q }\ntype Q { x: Int }\n", ""),
        ("only fragments", "schema { query: Q }\ntype Q { x: Int }\n", "fragment F on Q { x }\n"),
        ("empty schema", "", "query Op { x }\n"),
        ("weird derives", "schema { query: Q }\ntype Q { x: Int }\n", "query Op { x }\n"),
    ]:
        out.append({"family": "odd_schema", "desc": desc, "schema": sdl, "ext": "graphql", "query": q})
    out[-1]["options"] = dict(DEFAULT_OPTS, response_derives="Serialize,,", variables_derives="1x")
    for desc, js in [
        ("__schema null", '{"__schema": null}'), ("empty object", "{}"), ("data.__schema null", '{"data": {"__schema": null}}'),
        ("types null", '{"__schema": {"queryType": {"name": "Q"}, "types": null}}'),
        ("type entry null", '{"__schema": {"queryType": {"name": "Q"}, "types": [null]}}'),
        ("object without fields", '{"__schema": {"queryType": {"name": "Q"}, "types": [{"kind": "OBJECT", "name": "Q"}]}}'),
        ("object without name", '{"__schema": {"queryType": {"name": "Q"}, "types": [{"kind": "OBJECT", "fields": []}]}}'),
        ("field without type", '{"__schema": {"queryType": {"name": "Q"}, "types": [{"kind": "OBJECT", "name": "Q", "fields": [{"name": "x"}]}]}}'),
        ("list without ofType", '{"__schema": {"queryType": {"name": "Q"}, "types": [{"kind": "OBJECT", "name": "Q", "fields": [{"name": "x", "type": {"kind": "LIST"}}]}]}}'),
        ("unknown named type", '{"__schema": {"queryType": {"name": "Q"}, "types": [{"kind": "OBJECT", "name": "Q", "fields": [{"name": "x", "type": {"kind": "SCALAR", "name": "Nope"}}]}]}}'),
        ("unknown interface", '{"__schema": {"queryType": {"name": "Q"}, "types": [{"kind": "OBJECT", "name": "Q", "fields": [], "interfaces": [{"kind": "INTERFACE", "name": "Nope"}]}]}}'),
        ("union without possibleTypes", '{"__schema": {"queryType": {"name": "Q"}, "types": [{"kind": "UNION", "name": "U"}, {"kind": "OBJECT", "name": "Q", "fields": []}]}}'),
        ("enum without values", '{"__schema": {"queryType": {"name": "Q"}, "types": [{"kind": "ENUM", "name": "E"}, {"kind": "OBJECT", "name": "Q", "fields": []}]}}'),
        ("input without fields", '{"__schema": {"queryType": {"name": "Q"}, "types": [{"kind": "INPUT_OBJECT", "name": "In"}, {"kind": "OBJECT", "name": "Q", "fields": []}]}}'),
        ("kind unknown", '{"__schema": {"queryType": {"name": "Q"}, "types": [{"kind": "WEIRD", "name": "W"}, {"kind": "OBJECT", "name": "Q", "fields": []}]}}'),
        ("queryType unknown", '{"__schema": {"queryType": {"name": "Nope"}, "types": []}}'),
        ("array top level", "[]"), ("not json", "schema { query: Q }"), ("empty file", ""),
    ]:
        out.append({"family": "odd_json_schema", "desc": desc, "schema": js, "ext": "json", "query": "query Op { x }\n"})
    for ext in ("txt", "yaml", "JSON", "graphql.bak"):
        out.append({"family": "wrong_extension", "desc": ext, "schema": "schema { query: Q }\ntype Q { x: Int }\n", "ext": ext,
                    "query": "query Op { x }\n"})
    return out


TOKEN = re.compile(r'"""(?:.|\n)*?"""|"(?:\\.|[^"\\])*"|[A-Za-z_][A-Za-z0-9_]*|-?\d+(?:\.\d+)?|\.\.\.|[^\sA-Za-z0-9_]')


def text_cases(tier):
    """Every prefix (cut at every byte) and every single-token deletion of seed documents and schemas."""
    out = []
    schema = space.core_schema()
    sdl = schema.sdl()
    js = gql.Schema([gql.obj("Q", [("x", "[Int!]"), gql.FieldDef("é", "String", dep=("no \"more\"",))]),
                     gql.enum("E", ["A"]), gql.inp("In", [("a", "In")])], {"query": "Q"}).introspection()
    lib = space.fragment_library()
    seeds = []
    for sel, vars_ in [
        ([Field("me", [Field("id"), Spread("UserA"), Field("pet", [TN(), Inline("Cat", [Field("lives")])])]),
          Field("search", [TN(), Field("id")], args=[("filter", "$f"), ("first", "2")])], [("f", "Filter", None)]),
        ([Field("nodes", [TN(), Spread("NodeRec"), Inline("Org", [Field("kind")])]),
          Field("user", [Field("name", alias="é_name")], args=[("id", '"a\\"b é"')])], []),
    ]:
        frs = space.used_fragments(sel, lib)
        seeds.append(gql.render_doc(Doc(frs + [Op("query", "Op", sel, vars_)])))
    good_query = "query Op { me { id } }\n"
    step = 1 if tier == "thorough" else 1
    for si, q in enumerate(seeds):
        qb = q.encode()
        for k in range(0, len(qb), step):
            out.append({"family": "query_prefix", "desc": "seed %d cut at byte %d" % (si, k), "schema": sdl, "ext": "graphql",
                        "query_bytes": qb[:k]})
        toks = list(TOKEN.finditer(q))
        for ti, m in enumerate(toks):
            out.append({"family": "query_token_deleted", "desc": "seed %d token %d %r" % (si, ti, m.group(0)[:20]), "schema": sdl,
                        "ext": "graphql", "query": q[:m.start()] + q[m.end():]})
    sb = sdl.encode()
    cut_points = range(0, len(sb), 1)
    for k in cut_points:
        out.append({"family": "schema_prefix", "desc": "CORE SDL cut at byte %d" % k, "schema_bytes": sb[:k], "ext": "graphql",
                    "query": good_query})
    toks = list(TOKEN.finditer(sdl))
    for ti, m in enumerate(toks):
        out.append({"family": "schema_token_deleted", "desc": "token %d %r" % (ti, m.group(0)[:20]), "schema": sdl[:m.start()] + sdl[m.end():],
                    "ext": "graphql", "query": good_query})
    jb = js.encode()
    for k in range(0, len(jb), 1):
        out.append({"family": "json_schema_prefix", "desc": "cut at byte %d" % k, "schema_bytes": jb[:k], "ext": "json",
                    "query": "query Op { x }\n"})
    return out


def bytes_file(data, ext, sub):
    d = os.path.join(os.path.dirname(scratch_file("", "x", sub)), "")
    p = os.path.join(d, sha(data)[:24] + "." + ext)
    if not os.path.exists(p):
        with open(p, "wb") as f:
            f.write(data)
    return p


def run(tier):
    rep = Report("C17", "fault_enumeration", tier)
    cases = []
    cases += cycle_cases(6)
    cases += abstract_hop_cycle_cases(6)
    cases += spread_only_cycle_cases(6)
    cases += root_cycle_cases(4 if tier == "quick" else 6)
    cases += input_cycle_cases()
    cases += nesting_cases([1, 2, 4, 8, 16, 24, 32, 40, 48, 56, 64] if tier == "quick" else list(range(1, 65)) + [96, 128])
    cases += odd_schema_cases()
    cases += text_cases(tier)
    # the structural families once more under other option sets (termination must not hinge on an option)
    OPTION_SETS = [dict(DEFAULT_OPTS, normalization="rust", other_variant=True, skip_none=True),
                   dict(DEFAULT_OPTS, deprecation="deny", mode="derive", struct_ident="Op", operation_name="Op")]
    more = []
    for c in cases:
        if c["family"] in ("spread_cycle", "spread_cycle_abstract_hop", "spread_only_cycle", "root_spread_cycle", "input_cycle", "odd_schema", "odd_json_schema", "no_implementors", "selection_nesting", "selection_nesting_abstract", "inline_nesting", "list_nesting") and "options" not in c:
            for oi, o in enumerate(OPTION_SETS):
                more.append(dict(c, options=o, desc=c["desc"] + " [option set %d]" % (oi + 1)))
    cases += more
    reqs = []
    for c in cases:
        if "schema_bytes" in c:
            sp = bytes_file(c["schema_bytes"], c["ext"], "c17schemas")
        else:
            sp = scratch_file(c["schema"], c["ext"], "c17schemas")
        req = {"op": "gen", "schema_path": sp, "options": c.get("options", DEFAULT_OPTS), "tokens": False, "parse": True}
        if "query_bytes" in c:
            req["query_path"] = bytes_file(c["query_bytes"], "graphql", "c17queries")
        else:
            req["query_text"] = c["query"]
        reqs.append(req)
    log(f"[C17] {len(cases)} adversarial inputs")
    resps = generate(reqs, timeout=10.0, progress=5000)
    outcomes = {}
    fam = {}
    samples = []
    distinct = set()
    for c, r, q in zip(cases, resps, reqs):
        st = r["status"]
        outcomes[st] = outcomes.get(st, 0) + 1
        fam.setdefault(c["family"], {}).setdefault(st, 0)
        fam[c["family"]][st] += 1
        distinct.add((q["schema_path"], q.get("query_path") or sha(q.get("query_text", "")), json.dumps(q["options"], sort_keys=True)))
        label = {"family": c["family"], "desc": c["desc"], "schema_path": q["schema_path"],
                 "query": c.get("query") if "query" in c else "<bytes %s>" % q.get("query_path")}
        if "schema" in c and len(c["schema"]) < 1500:
            label["schema"] = c["schema"]
        if st in ("died", "timeout"):
            sigs = set()
            if c["family"] == "spread_cycle" and "through=direct" in c["desc"] and "mixed=False" in c["desc"]:
                sigs.add("same_type_direct_spread_cycle")
            rep.violation("process_" + st, label, {k: r.get(k) for k in ("signal", "returncode", "began")}, sigs)
        elif st == "panic" and not (r.get("msg") or "").strip():
            rep.violation("panic_without_message", label, r)
        elif st == "ok" and r.get("parse_error"):
            rep.violation("output_not_rust", label, r["parse_error"])
        elif st == "machinery":
            rep.violation("machinery", label, r)
        if len(samples) < 5000:
            samples.append({"family": c["family"], "desc": c["desc"], "outcome": st, "msg": (r.get("msg") or "")[:100]})
    cov = {
        "evaluations": len(cases), "distinct_nontrivial": len(distinct),
        "rule": "adversarial grammar enumerated completely within its bounds: spread cycles of length 1-6 on object / "
                "interface / union types x __typename {none, first, last} x {direct, through a field} x {used, unused, entered through a "
                "fragment outside the cycle (directly / through a field)} x {same type, alternating types}; input-type cycles of length 1-4 x 4 edge kinds x @oneOf; selection / inline "
                "/ list nesting up to 64 (thorough: every depth, plus 96 and 128); degenerate schemas (SDL and JSON); every "
                "byte-prefix and every single-token deletion of seed queries and of the CORE schema (SDL) and of a JSON "
                "schema; the structural families also under two other option sets (rust normalization + other-variant + skip-none; "
                "deny + derive mode). distinct = distinct (schema file, query text, options) triples",
        "families": fam, "distinct_outcomes": outcomes, "exhaustive": False,
        "samples": pick_samples(samples, 10),
    }
    return rep.finish(cov, ["one case per worker request; 10 s wall limit per case; main-thread stack 8 MB as in rustc's proc-macro host is NOT assumed: the worker runs the generator on its main thread with the default 8 MB stack"])
