"""C18 — the derive macro applies exactly the options written in #[graphql(...)].

Model = flag -> option table. (1) Exhaustive enumeration of attribute arrangements compiled *inside*
graphql_query_derive through hook H2 (rs/derive_hook.rs): every subset of the optional keys x
orders x literal styles x separators / trailing comma, every permutation of small subsets, the value
domain of every key (alone and in pairs), surrounding attributes, struct visibilities and
manifest-relative paths; for each arrangement the options the crate's real functions build and the
options built from the table must make the real generator emit the same token stream on an
option-revealing fixture. (2) Conformance: real #[derive(GraphQLQuery)] expansions in crates that
depend on graphql_client only, observed by behaviour (what compiles, what warns).
"""
import json
import os
import subprocess

from common import Report, pick_samples, log, WORK, REPO, ROOT, base_env, Machinery
from farm import DeriveFarm, Case

FIX = os.path.join(ROOT, "rs", "c18fix")

EXTERN_ROLE = '''
#[derive(Debug, Clone, PartialEq)]
pub enum Role { ADMIN, Other(String) }
impl graphql_client::_private::serde::Serialize for Role {
    fn serialize<S: graphql_client::_private::serde::Serializer>(&self, ser: S) -> Result<S::Ok, S::Error> { ser.serialize_str("ADMIN") }
}
impl<'de> graphql_client::_private::serde::Deserialize<'de> for Role {
    fn deserialize<D: graphql_client::_private::serde::Deserializer<'de>>(d: D) -> Result<Self, D::Error> {
        let s: String = graphql_client::_private::serde::Deserialize::deserialize(d)?; Ok(Role::Other(s))
    }
}
'''


def conformance_cases():
    """(description, attrs, struct visibility, prelude, probe, expectation)"""
    C = []
    date = "pub type Date = String;\n"
    # normalization
    for attr, style in (('normalization = "rust"', "plain"), ('normalization = r"rust"', "raw"), ('normalization = r#"RUST"#', "raw#, upper case"),
                        ('normalization = "\\u{72}ust"', "escaped")):
        C.append(("normalization rust (%s): normalised variant exists" % style, attr, "pub", date, "let _ = op::Role::GuestUser;", "ok"))
    C.append(("normalization unset: schema spelling kept", "", "pub", date, "let _ = op::Role::guest_user;", "ok"))
    C.append(("normalization unset: normalised variant must not exist", "", "pub", date, "let _ = op::Role::GuestUser;", "error"))
    C.append(("normalization none: normalised variant must not exist", 'normalization = "none"', "pub", date, "let _ = op::Role::GuestUser;", "error"))
    C.append(("normalization invalid value: default none", 'normalization = "bogus"', "pub", date, "let _ = op::Role::guest_user;", "ok"))
    # other variant
    C.append(("fragments_other_variant true: Unknown variant exists", 'fragments_other_variant = "true"', "pub", date, "let _ = op::OpMeFriendOn::Unknown;", "ok"))
    C.append(("fragments_other_variant unset: no Unknown variant", "", "pub", date, "let _ = op::OpMeFriendOn::Unknown;", "error"))
    C.append(("fragments_other_variant false: no Unknown variant", 'fragments_other_variant = "false"', "pub", date, "let _ = op::OpMeFriendOn::Unknown;", "error"))
    C.append(("fragments_other_variant invalid: off", 'fragments_other_variant = "yes"', "pub", date, "let _ = op::OpMeFriendOn::Unknown;", "error"))
    # deprecation
    dep_probe = "fn f(u: &op::OpMe) -> &Option<String> { &u.legacy }"
    C.append(("deprecated unset: warning on use", "", "pub", date, dep_probe, ("warn", "deprecated")))
    C.append(("deprecated warn: warning on use", 'deprecated = "warn"', "pub", date, dep_probe, ("warn", "deprecated")))
    C.append(("deprecated allow: no warning", 'deprecated = "allow"', "pub", date, dep_probe, ("nowarn", "deprecated")))
    C.append(("deprecated ALLOW (case-insensitive): no warning", 'deprecated = "ALLOW"', "pub", date, dep_probe, ("nowarn", "deprecated")))
    C.append(("deprecated deny: field absent", 'deprecated = "deny"', "pub", date, dep_probe, "error"))
    C.append(("deprecated deny (raw literal, last position)", 'response_derives = "Debug", deprecated = r#"deny"#', "pub", date, dep_probe, "error"))
    C.append(("deprecated invalid: default warn", 'deprecated = "bogus"', "pub", date, dep_probe, ("warn", "deprecated")))
    # derives
    dbg = 'fn f(u: &op::OpMe) -> String { format!("{:?}", u) }'
    C.append(("response_derives Debug", 'response_derives = "Debug"', "pub", date, dbg, "ok"))
    C.append(("response_derives unset: no Debug", "", "pub", date, dbg, "error"))
    C.append(("response_derives list with spaces", 'response_derives = "Clone, Debug , PartialEq"', "pub", date, dbg + " fn g(u: &op::OpMe) -> bool { u.clone() == *u }", "ok"))
    C.append(("variables_derives Default", 'variables_derives = "Default"', "pub", date, "let _ = op::Variables::default();", "ok"))
    C.append(("variables_derives unset: no Default", "", "pub", date, "let _ = op::Variables::default();", "error"))
    C.append(("variables_derives must not leak into response types", 'variables_derives = "Debug"', "pub", date, dbg, "error"))
    # custom scalars module
    C.append(("custom_scalars_module: scalar taken from that module", 'custom_scalars_module = "crate::scalars"', "pub", "", "fn f(u: op::OpMe) -> Option<String> { u.since }", "ok"))
    C.append(("custom_scalars_module unset and no alias supplied: unresolved", "", "pub", "", "", "error"))
    # extern enums
    C.append(("extern_enums: field has the consumer's type", 'extern_enums("Role")', "pub", date + EXTERN_ROLE, "fn f(u: op::OpMe) -> Option<Role> { u.role }", "ok"))
    C.append(("extern_enums unset: field has the generated type", "", "pub", date + EXTERN_ROLE, "fn f(u: op::OpMe) -> Option<Role> { u.role }", "error"))
    C.append(("extern_enums with two names, trailing comma", 'extern_enums("Role", "Missing",),', "pub", date + EXTERN_ROLE, "fn f(u: op::OpMe) -> Option<Role> { u.role }", "ok"))
    # visibility (derive inside an inner module, probe from outside it)
    C.append(("pub struct: module reachable from outside", "", "pub", date, "VIS", "ok"))
    C.append(("pub(crate) struct: module reachable inside the crate", "", "pub(crate)", date, "VIS", "ok"))
    C.append(("private struct: module private", "", "", date, "VIS", "error"))
    C.append(("pub(in path) struct: module visible in that path", "", "pub(in crate)", date, "VIS", "ok"))
    C.append(("pub(super) struct: module visible in the parent", "", "pub(super)", date, "VIS", "ok"))
    # all options at once, reversed order, mixed literal styles
    C.append(("all keys, reversed order, mixed literals",
              'normalization = r"rust", deprecated = "allow", skip_serializing_none, fragments_other_variant = r#"true"#, extern_enums("Role"), '
              'custom_scalars_module = "crate::scalars", variables_derives = "Default,Debug", response_derives = "Debug"', "pub", EXTERN_ROLE,
              dbg + " fn g() { let _ = op::OpMeFriendOn::Unknown; let _ = op::Variables::default(); } fn h(u: op::OpMe) -> Option<Role> { u.role }", ("nowarn", "deprecated")))
    return C


def case_source(srel, qrel, attrs, vis, prelude, probe, paths_first=True):
    a = 'schema_path = "%s", query_path = "%s"' % (srel, qrel)
    if attrs:
        a = (a + ", " + attrs) if paths_first else (attrs.rstrip(", ") + ", " + a)
    head = "#![allow(unused, dead_code, non_camel_case_types, non_snake_case, unused_imports)]\n" + prelude
    if probe == "VIS":
        return (head + "mod inner {\n    use super::*;\n    #[derive(graphql_client::GraphQLQuery)]\n    #[graphql(%s)]\n    %s struct Op;\n}\n"
                "pub fn probe() { let _ = inner::op::QUERY; }\n" % (a, vis))
    body = probe if probe.startswith("fn ") else "pub fn probe() { %s }" % probe
    return head + "#[derive(graphql_client::GraphQLQuery)]\n#[graphql(%s)]\n%s struct Op;\n%s\n" % (a, vis, body)


def run(tier):
    rep = Report("C18", "model_checking", tier)
    # ---------------------------------------------------------------- (1) in-crate enumeration through hook H2
    out_path = os.path.join(WORK, "c18_results.jsonl")
    if os.path.exists(out_path):
        os.remove(out_path)
    env = base_env()
    env.update({"RUSTFLAGS": "--cfg graphql_client_verif", "CARGO_TARGET_DIR": os.path.join(WORK, "target-derive"),
                "GRAPHQL_CLIENT_VERIF_DERIVE_HOOK": os.path.join(ROOT, "rs", "derive_hook.rs"), "VERIF_C18_OUT": out_path, "VERIF_TIER": tier})
    p = subprocess.run(["cargo", "test", "--release", "--offline", "-p", "graphql_query_derive", "verif_c18", "--", "--nocapture"],
                       cwd=REPO, env=env, stdout=subprocess.PIPE, stderr=subprocess.STDOUT, text=True)
    if not os.path.exists(out_path):
        raise Machinery("the in-crate enumeration did not run:\n" + p.stdout[-3000:])
    summary = None
    with open(out_path) as f:
        for line in f:
            d = json.loads(line)
            if d["kind"] == "summary":
                summary = d
            elif d["kind"] == "machinery":
                raise Machinery("derive_hook produced an unparsable input: %r" % d)
            else:
                rep.violation(d["kind"], {"group": d.get("group"), "input": d.get("input")}, {k: d[k] for k in d if k in ("detail", "derive", "table")})
    if summary is None or p.returncode != 0:
        raise Machinery("in-crate enumeration failed:\n" + p.stdout[-3000:])
    log(f"[C18] in-crate: {summary['cases']} arrangements, {summary['distinct_observations']} distinct observations")
    # ---------------------------------------------------------------- (2) real derives observed by behaviour
    farm = DeriveFarm("c18", nshards=8)
    with open(os.path.join(FIX, "schema.graphql")) as f:
        srel = farm.add_file(f.read(), "graphql")
    with open(os.path.join(FIX, "query.graphql")) as f:
        qrel = farm.add_file(f.read(), "graphql")
    cases = []
    for i, (desc, attrs, vis, prelude, probe, expect) in enumerate(conformance_cases()):
        for paths_first in ((True, False) if tier == "thorough" or i % 3 == 0 else (True,)):
            src = case_source(srel, qrel, attrs, vis, prelude, probe, paths_first)
            cases.append({"desc": desc, "attrs": attrs, "expect": expect, "src": src, "case": farm.add(Case(src, []))})
    farm.build()
    warnings = getattr(farm, "warnings", {})
    validated = 0
    for c in cases:
        fc = farm.cases[c["case"]]
        validated += 1
        label = {"what": c["desc"], "attributes": c["attrs"], "source": c["src"]}
        ws = [w for w in warnings.get(c["case"], []) if w["code"] == "deprecated"]
        if c["expect"] == "ok":
            if not fc.compiles:
                rep.violation("option_not_applied_by_real_derive", label, [(e["code"], e["message"][:160]) for e in fc.errors[:2]])
        elif c["expect"] == "error":
            if fc.compiles:
                rep.violation("real_derive_applied_an_option_that_was_not_written", label, "probe compiled")
        else:
            kind, code = c["expect"]
            if not fc.compiles:
                rep.violation("option_not_applied_by_real_derive", label, [(e["code"], e["message"][:160]) for e in fc.errors[:2]])
            elif kind == "warn" and not ws:
                rep.violation("deprecation_warning_missing", label, warnings.get(c["case"], [])[:3])
            elif kind == "nowarn" and ws:
                rep.violation("unexpected_deprecation_warning", label, ws[:2])
    cov = {
        "states": summary["cases"], "transitions": summary["cases"] * 2 + validated, "traces_validated_against_impl": validated,
        "evaluations": summary["cases"] + validated, "distinct_nontrivial": summary["distinct_observations"],
        "rule": "state = attribute token stream: every subset of the 8 optional keys x 4 orders x 4 string-literal styles (plain, "
                "all-escaped, raw, raw#) x {', ' / ',\\n' + trailing comma}; every permutation of every subset of <= %d optional keys "
                "with the two paths; every value of every key's domain (valid, case variants, invalid, empty) alone in 4 literal "
                "styles and in pairs; 5 x 4 surrounding attribute sets x 7 struct visibilities (incl. pub(in path)) x 9 manifest-relative directories; every history of <= %d settings of CARGO_MANIFEST_DIR (two crates, a directory with a blank, unset) in one process, paths checked after each step. "
                "transition = real option builder vs table, compared through the generator's token stream. non-trivial = distinct "
                "observed token streams. Conformance = real derive expansions judged by what compiles / warns" % (2 if tier == "quick" else 3, 3 if tier == "quick" else 4),
        "in_crate_arrangements": summary["cases"], "distinct_observations": summary["distinct_observations"],
        "real_derive_cases": len(cases), "exhaustive": True,
        "samples": summary.get("samples", [])[:6] + pick_samples([c["desc"] for c in cases], 4),
    }
    return rep.finish(cov, ["in (1) the token streams are produced by proc_macro2's fallback implementation (outside a macro invocation); (2) covers the real compiler-driven path",
                            "skip_serializing_none is not observable at compile time and is covered by (1) only"])
