"""C19 — `graphql-client generate` writes exactly the library's output to the right file.

Fault / configuration enumeration against the real binary (built from the tree): every flag
setting within the deviation bound of the default invocation (thorough: bound 3), two query file
names, output placement, formatting; plus the failure clause (invalid documents of C06's catalogue,
missing files, with and without a pre-existing output file). Oracle: exit status, exactly one new
file at <out or query dir>/<stem>.rs, header line, body equal to the library's token stream for the
options the flag table prescribes (byte-equal with --no-formatting, equal after re-tokenisation
when formatted), nothing else in the tree changed; on error non-zero exit and no file touched.
"""
import hashlib
import itertools
import json
import os
import shutil

import gql
import space
from gql import Field, Inline, Spread, FragDef, Op, Doc, TN
from common import Report, pick_samples, log, build_cli, build_workers, run_process, parallel_map, WORK, run_cases
from checks.c06 import make_editor, doc_level_edits

HEADER = "#![allow(clippy::all, warnings)]"

DIMS = [
    ("variables_derives", [None, "Debug", "Debug,Clone"]),
    ("response_derives", [None, "Debug", "Serialize,Debug,PartialEq"]),
    ("deprecation", [None, "allow", "warn", "deny", "bogus"]),
    ("visibility", [None, "pub", "crate", "inherited", "private"]),
    ("custom_scalars_module", [None, "crate::scalars", "::scalars_crate::types"]),
    ("other_variant", [False, True]),
    ("external_enums", [None, ["Role"], ["Role", "Nope"]]),
    ("selected", [None, "First", "SecondOp", "Missing", "third_op", "ThirdOp"]),
    ("outdir", [False, True]),
    ("format", [False, True]),
    ("qname", ["q.graphql", "sub/q.v2.graphql"]),
    ("short_flags", [False, True]),
    ("preexisting", [False, True]),   # a longer file already sits at the destination (regeneration)
    ("sname", ["schema.graphql", "schema.graphqls", "schema.gql", "schema.json"]),   # every schema file form the library reads
    ("qtext", ["lf", "crlf", "comments_tabs_bom_free"]),   # the query file's bytes reach the library unchanged
    ("relative", [False, True]),   # paths given relative to the working directory (the output directory too)
    # the query / schema path given on the command line is a symbolic link to a file of another name in another directory:
    # the output is named after and placed beside the path *as given*, and the schema's form follows the given extension
    ("link", [None, "query", "schema"]),
]


def the_document():
    lib = space.fragment_library()
    sel_a = [Field("me", [Field("id"), Field("role"), Field("since"), Field("legacy"), Spread("UserB"),
                          Field("pet", [TN(), Inline("Cat", [Field("lives")])])]),
             Field("nodes", [TN(), Field("id"), Inline("Org", [Field("kind")])])]
    sel_b = [Field("rename", [Spread("UserB"), Field("role")], args=[("id", "$id"), ("name", "$name")])]
    frs = space.used_fragments(sel_a + sel_b, lib)
    return Doc(frs + [Op("query", "First", sel_a, [("f", "Filter", None)]),
                      Op("mutation", "SecondOp", sel_b, [("id", "ID!", None), ("name", "String!", None), ("r", "Role", None)]),
                      # an operation whose name is not CamelCase (selected by its exact name; `ThirdOp` names no operation)
                      Op("subscription", "third_op", [Field("tick")])])


def library_options(cfg):
    """The flag -> option table of the property (what the CLI must hand to the library)."""
    vis = {None: "pub", "pub": "pub", "inherited": "", "crate": "pub(crate)", "private": ""}[cfg["visibility"]]
    o = {"mode": "cli", "visibility": vis, "other_variant": cfg["other_variant"]}
    if cfg["variables_derives"]:
        o["variables_derives"] = cfg["variables_derives"]
    if cfg["response_derives"]:
        o["response_derives"] = cfg["response_derives"]
    if cfg["deprecation"] in ("allow", "warn", "deny"):
        o["deprecation"] = cfg["deprecation"]
    if cfg["custom_scalars_module"]:
        o["custom_scalars_module"] = cfg["custom_scalars_module"]
    if cfg["external_enums"] is not None:
        o["extern_enums"] = cfg["external_enums"]
    if cfg["selected"]:
        o["operation_name"] = cfg["selected"]
    return o


def argv_for(cfg, root):
    if cfg.get("relative") and root != "<root>":
        root = "."   # the command runs with the case's root as its working directory
    short = cfg["short_flags"]
    a = ["generate", "-s" if short else "--schema-path", os.path.join(root, cfg["sname"]), os.path.join(root, cfg["qname"])]
    if cfg["variables_derives"]:
        a += ["-I" if short else "--variables-derives", cfg["variables_derives"]]
    if cfg["response_derives"]:
        a += ["-O" if short else "--response-derives", cfg["response_derives"]]
    if cfg["deprecation"]:
        a += ["-d" if short else "--deprecation-strategy", cfg["deprecation"]]
    if cfg["visibility"]:
        a += ["-m" if short else "--module-visibility", cfg["visibility"]]
    if cfg["custom_scalars_module"]:
        a += ["-p" if short else "--custom-scalars-module", cfg["custom_scalars_module"]]
    if cfg["other_variant"]:
        a += ["--fragments-other-variant"]
    if cfg["selected"]:
        a += ["--selected-operation", cfg["selected"]]
    if cfg["outdir"]:
        a += ["-o" if short else "--output-directory", os.path.join(root, "out")]
    if not cfg["format"]:
        a += ["--no-formatting"]
    if cfg["external_enums"] is not None:
        a += ["--external-enums"] + cfg["external_enums"]
    return a


def query_bytes(qtext, form):
    if form == "crlf":
        return qtext.replace("\n", "\r\n").encode("utf-8")
    if form == "comments_tabs_bom_free":
        return ("# leading comment, é\n" + qtext.replace("  ", "\t") + "\n\n# trailing comment\r\n").encode("utf-8")
    return qtext.encode("utf-8")


def snapshot(root):
    out = {}
    for d, _, files in os.walk(root):
        for f in files:
            p = os.path.join(d, f)
            with open(p, "rb") as fh:
                out[os.path.relpath(p, root)] = hashlib.sha256(fh.read()).hexdigest()
    return out


def configs(bound):
    default = tuple(0 for _ in DIMS)
    sets = [default]
    for n in range(1, bound + 1):
        for dims in itertools.combinations(range(len(DIMS)), n):
            for alts in itertools.product(*[range(1, len(DIMS[i][1])) for i in dims]):
                s = list(default)
                for i, a in zip(dims, alts):
                    s[i] = a
                sets.append(tuple(s))
    return [{name: vals[i] for (name, vals), i in zip(DIMS, s)} for s in sets]


def run(tier):
    rep = Report("C19", "fault_enumeration", tier)
    cli = build_cli()
    build_workers()
    schema = space.core_schema()
    sdl = schema.sdl()
    sjson = schema.introspection()
    doc = the_document()
    qtext = gql.render_doc(doc)
    base = os.path.join(WORK, "c19")
    shutil.rmtree(base, ignore_errors=True)
    os.makedirs(base)
    cfgs = configs(3 if tier == "quick" else 4)
    if tier == "thorough" and len(cfgs) > 12000:
        cfgs = cfgs[:12000]
        rep.caps.append({"configs_capped_at": 12000})

    def invoke(item):
        i, cfg = item
        root = os.path.join(base, "r%05d" % i)
        os.makedirs(os.path.join(root, "sub"))
        os.makedirs(os.path.join(root, "out"))
        spath, qpath = os.path.join(root, cfg["sname"]), os.path.join(root, cfg["qname"])
        if cfg.get("link"):
            os.makedirs(os.path.join(root, "store"))
            real = os.path.join(root, "store", "shared_doc_v7.graphql" if cfg["link"] == "query" else "blob.bin")
            os.symlink(real, qpath if cfg["link"] == "query" else spath)
            if cfg["link"] == "query":
                qpath = real
            else:
                spath = real
        with open(spath, "w") as f:
            f.write(sjson if cfg["sname"].endswith(".json") else sdl)
        with open(qpath, "wb") as f:
            f.write(query_bytes(qtext, cfg["qtext"]))
        if cfg["preexisting"]:
            stem = os.path.splitext(os.path.basename(cfg["qname"]))[0]
            dest = os.path.join(root, "out", stem + ".rs") if cfg["outdir"] else os.path.join(root, os.path.dirname(cfg["qname"]), stem + ".rs")
            with open(dest, "w") as f:
                f.write("// output of an earlier run\n" + "// padding padding padding padding\n" * 4000)
        before = snapshot(root)
        rc, out, err = run_process([cli] + argv_for(cfg, root), timeout=60, cwd=root)
        after = snapshot(root)
        return {"root": root, "rc": rc, "stderr": (err or "")[-400:], "before": before, "after": after}

    results = parallel_map(invoke, list(enumerate(cfgs)))
    # library side
    lib_reqs = []
    for cfg, res in zip(cfgs, results):
        lib_reqs.append({"op": "gen", "schema_path": os.path.join(res["root"], cfg["sname"]),
                         "query_path": os.path.join(res["root"], cfg["qname"]), "options": library_options(cfg)})
    lib = run_cases(lib_reqs)
    outcomes = {}
    retok_reqs, retok_meta = [], []
    distinct = set()
    for cfg, res, lr in zip(cfgs, results, lib):
        label = {"flags": {k: v for k, v in cfg.items()}, "argv": argv_for(cfg, "<root>")}
        distinct.add(json.dumps(cfg, sort_keys=True))
        sigs = set()
        if cfg["visibility"] == "private":
            sigs.add("cli_visibility_value_private")
        stem = os.path.splitext(os.path.basename(cfg["qname"]))[0]
        want_rel = os.path.join("out", stem + ".rs") if cfg["outdir"] else os.path.join(os.path.dirname(cfg["qname"]), stem + ".rs")
        new = sorted(set(res["after"]) - set(res["before"]))
        changed = sorted(k for k in res["before"] if res["after"].get(k) != res["before"][k])
        if lr["status"] != "ok":
            # the library refuses these options: the CLI must fail too, without writing
            outcomes["library_error"] = outcomes.get("library_error", 0) + 1
            if res["rc"] == 0 or new or changed:
                rep.violation("cli_succeeds_where_library_fails", label, {"rc": res["rc"], "new": new, "library": lr.get("msg")}, sigs)
            continue
        if res["rc"] != 0:
            outcomes["cli_failed"] = outcomes.get("cli_failed", 0) + 1
            rep.violation("cli_failed_on_supported_input", label, {"rc": res["rc"], "stderr": res["stderr"]}, sigs)
            continue
        outcomes["ok"] = outcomes.get("ok", 0) + 1
        if cfg["preexisting"]:
            wrong = new != [] or changed != [want_rel]
        else:
            wrong = new != [want_rel] or changed != []
        if wrong:
            rep.violation("wrong_files_written", label, {"new": new, "expected": [want_rel], "modified": changed}, sigs)
            continue
        with open(os.path.join(res["root"], want_rel), encoding="utf-8") as f:
            text = f.read()
        first, _, rest = text.partition("\n")
        if first.strip() != HEADER:
            rep.violation("header_missing", label, first[:120], sigs)
            continue
        if not cfg["format"]:
            if rest != lr["tokens"]:
                rep.violation("output_differs_from_library", label, diff_hint(lr["tokens"], rest), sigs)
        else:
            retok_reqs.append({"op": "inspect_text", "text": text})
            retok_reqs.append({"op": "inspect_text", "text": lr["tokens"]})
            retok_meta.append((label, sigs))
    rr = run_cases(retok_reqs)
    for i, (label, sigs) in enumerate(retok_meta):
        a, b = rr[2 * i], rr[2 * i + 1]
        if a.get("status") != "ok" or b.get("status") != "ok":
            rep.violation("formatted_output_not_parsable", label, a.get("msg") or b.get("msg"), sigs)
        elif canon_items(a["items"]) != canon_items(b["items"]) or not any(HEADER.replace(" ", "") in x.replace(" ", "") for x in a.get("inner_attrs", [])):
            rep.violation("formatted_output_differs_from_library", label, diff_hint(b["tokens"], a["tokens"]), sigs)
    # ------------------------------------------------------------------ failure clause
    fail_docs = []
    single = Doc([d for d in doc.defs if not (isinstance(d, Op) and d.name == "SecondOp")])
    editor = make_editor(schema, single.frags)
    seen_kinds = {}
    for desc, where, nd in list(gql.single_point_edits(schema, single, editor)) + list(doc_level_edits(schema, single)):
        errs = gql.validate(schema, nd)
        rule = desc.replace("_first", "").replace("_abstract", "")
        if not any(e[0] == rule for e in errs):
            continue
        rule = desc.replace("_first", "")
        seen_kinds[rule] = seen_kinds.get(rule, 0) + 1
        if seen_kinds[rule] <= (4 if tier == "quick" else 12):
            fail_docs.append((desc, where, gql.render_doc(nd)))
    fail_docs.append(("unparsable_query", "", "query First { me { id "))
    fail_cases = []
    for desc, where, text in fail_docs:
        for existing in (False, True):
            fail_cases.append({"desc": desc, "where": where, "text": text, "existing": existing, "missing": None})
    for missing in ("query", "schema"):
        for existing in (False, True):
            fail_cases.append({"desc": "missing_" + missing + "_file", "where": "", "text": qtext, "existing": existing, "missing": missing})
    fail_cases.append({"desc": "schema_wrong_extension", "where": "", "text": qtext, "existing": True, "missing": "ext"})
    fail_cases.append({"desc": "output_directory_missing", "where": "", "text": qtext, "existing": False, "missing": "outdir"})

    def invoke_fail(item):
        i, c = item
        root = os.path.join(base, "f%05d" % i)
        os.makedirs(root)
        sname = "schema.txt" if c["missing"] == "ext" else "schema.graphql"
        if c["missing"] != "schema":
            with open(os.path.join(root, sname), "w") as f:
                f.write(sdl)
        if c["missing"] != "query":
            with open(os.path.join(root, "q.graphql"), "w") as f:
                f.write(c["text"])
        if c["existing"]:
            with open(os.path.join(root, "q.rs"), "w") as f:
                f.write("// sentinel: must survive a failed run\n")
        before = snapshot(root)
        argv = [cli, "generate", "--schema-path", os.path.join(root, sname), os.path.join(root, "q.graphql"), "--no-formatting"]
        if c["missing"] == "outdir":
            argv += ["-o", os.path.join(root, "no_such_dir")]
        rc, out, err = run_process(argv, timeout=60, cwd=root)
        return {"rc": rc, "before": before, "after": snapshot(root), "stderr": (err or "")[-300:]}

    fres = parallel_map(invoke_fail, list(enumerate(fail_cases)))
    for c, r in zip(fail_cases, fres):
        label = {"failure": c["desc"], "at": c["where"], "query": c["text"] if c["missing"] != "query" else "<no file>", "existing_output": c["existing"]}
        distinct.add(json.dumps(label, sort_keys=True))
        sigs = {"object_typed_field_without_subselection"} if c["desc"] == "missing_subselection" else set()
        new = sorted(set(r["after"]) - set(r["before"]))
        changed = sorted(k for k in r["before"] if r["after"].get(k) != r["before"][k])
        outcomes["fail_rc_%s" % ("nonzero" if r["rc"] else "zero")] = outcomes.get("fail_rc_%s" % ("nonzero" if r["rc"] else "zero"), 0) + 1
        if r["rc"] == 0:
            rep.violation("exit_zero_on_generation_error", label, {"new": new, "modified": changed}, sigs)
        elif new or changed:
            rep.violation("file_written_on_generation_error", label, {"rc": r["rc"], "new": new, "modified": changed}, sigs)
    shutil.rmtree(base, ignore_errors=True)
    cov = {
        "evaluations": len(cfgs) + len(fail_cases), "distinct_nontrivial": len(distinct),
        "rule": "success clause: every setting of 17 dimensions (query or schema path given as a symbolic link to a differently named file elsewhere, absolute / working-directory-relative paths, query file bytes LF / CRLF / comments+tabs, schema file form .graphql / .graphqls / .gql / .json, pre-existing output, derives, deprecation strategy incl. an invalid value, module "
                "visibility, custom scalars module, other-variant, external enums, selected operation incl. a missing one, output "
                "directory, formatting, query file name, short / long flag spelling) within deviation bound %d of the default "
                "invocation; failure clause: up to %d instances of every invalidating edit kind of C06, an unparsable query, missing "
                "query / schema file, wrong schema extension, missing output directory, each with and without a pre-existing "
                "output file" % (3 if tier == "quick" else 4, 4 if tier == "quick" else 12),
        "invocations_success_clause": len(cfgs), "invocations_failure_clause": len(fail_cases), "formatted_compared": len(retok_meta),
        "distinct_outcomes": outcomes, "exhaustive": False,
        "samples": pick_samples([{"argv": argv_for(c, "<root>")} for c in cfgs], 5) + pick_samples([{"failure": c["desc"], "existing_output": c["existing"]} for c in fail_cases], 3),
    }
    return rep.finish(cov, ["rustfmt itself is trusted to preserve tokens (formatted output is compared after re-tokenisation with syn)",
                            "the library side is the worker calling generate_module_token_stream on the same files with table-derived options"])


def canon_items(items):
    """Items as re-tokenised by syn, modulo what rustfmt is entitled to change: the order of `use` items, the
    order of names inside `use x::{..}` and a leading `::` on a `use` path."""
    import re

    def canon_use(tree):
        t = tree.lstrip(":")
        m = re.match(r"^(.*)\{(.*)\}$", t)
        if m:
            t = m.group(1) + "{" + ",".join(sorted(m.group(2).split(","))) + "}"
        return t

    def canon(it):
        it = dict(it)
        if it["kind"] == "mod":
            inner = [canon(x) for x in it["items"]]
            uses = sorted(canon_use(x["tree"]) for x in inner if x["kind"] == "use")
            it["items"] = [x for x in inner if x["kind"] != "use"]
            it["uses"] = uses
        return it
    return [canon(x) for x in items]


def diff_hint(a, b):
    i = 0
    while i < min(len(a), len(b)) and a[i] == b[i]:
        i += 1
    return {"at": i, "library": a[max(0, i - 60):i + 100], "cli": b[max(0, i - 60):i + 100]}
