"""C20 — `introspect-schema` sends the right request and never corrupts its output.

Fault enumeration against the real binary with a loopback mock endpoint owned by the check (raw
sockets, one scripted behaviour per invocation): every flag combination and header string of the
alphabet for the request model; every server behaviour (200 + JSON, garbage, empty, 4xx / 5xx with
JSON or text bodies, refused, closed before the reply, closed after k bytes for EVERY k of a reply
that carries a content-length) x output placement {stdout, new file, existing file}.
"""
import itertools
import json
import os
import re
import shutil
import socket
import threading

import gql
import space
from gql import Field, Inline, Spread, Op, Doc, TN
from common import Report, pick_samples, log, build_cli, build_workers, run_process, parallel_map, WORK, run_cases, REPO, base_env

GQL_DIR = os.path.join(REPO, "graphql_client_cli", "src", "graphql")
DOCS = {(False, False): "introspection_query.graphql", (True, False): "introspection_query_with_is_one_of.graphql",
        (False, True): "introspection_query_with_specified_by.graphql", (True, True): "introspection_query_with_isOneOf_specifiedByUrl.graphql"}
# longer than anything the mock serves: a write that does not truncate leaves a tail behind
SENTINEL = b'{"sentinel": "an earlier, good introspection result", "padding": "' + b"x" * 20000 + b'"}\n'


class Mock:
    """One listening socket, one scripted behaviour, everything received is logged."""

    def __init__(self, behaviour):
        self.behaviour = behaviour
        self.sock = socket.socket(socket.AF_INET, socket.SOCK_STREAM)
        self.sock.bind(("127.0.0.1", 0))
        self.port = self.sock.getsockname()[1]
        self.requests = []
        self.connections = 0
        self.stop = False
        if behaviour["kind"] == "refused":
            self.sock.close()
            self.thread = None
            return
        self.sock.listen(8)
        self.sock.settimeout(0.2)
        self.thread = threading.Thread(target=self.serve, daemon=True)
        self.thread.start()

    def serve(self):
        while not self.stop:
            try:
                conn, _ = self.sock.accept()
            except socket.timeout:
                continue
            except OSError:
                return
            self.connections += 1
            try:
                self.handle(conn)
            except Exception as e:  # noqa
                self.requests.append({"error": repr(e)})
            finally:
                try:
                    conn.close()
                except Exception:
                    pass

    def handle(self, conn):
        conn.settimeout(5)
        buf = b""
        while b"\r\n\r\n" not in buf:
            chunk = conn.recv(65536)
            if not chunk:
                break
            buf += chunk
        head, _, rest = buf.partition(b"\r\n\r\n")
        lines = head.decode("latin-1").split("\r\n")
        headers = []
        for ln in lines[1:]:
            k, _, v = ln.partition(":")
            headers.append((k.strip().lower(), v.strip()))
        clen = int(dict(headers).get("content-length", "0") or 0)
        while len(rest) < clen:
            chunk = conn.recv(65536)
            if not chunk:
                break
            rest += chunk
        self.requests.append({"line": lines[0], "headers": headers, "body": rest.decode("utf-8", "replace")})
        b = self.behaviour
        if b["kind"] == "close_before_reply":
            return
        payload = b.get("raw")
        if payload is None:
            body = b["body"]
            payload = ("HTTP/1.1 %d %s\r\ncontent-type: %s\r\ncontent-length: %d\r\nconnection: close\r\n\r\n" %
                       (b["status"], b.get("reason", "X"), b.get("ctype", "application/json"), len(body))).encode() + body
        if b["kind"] == "cut":
            payload = payload[:b["k"]]
        if payload:
            conn.sendall(payload)
        try:
            conn.shutdown(socket.SHUT_RDWR)
        except OSError:
            pass

    def close(self):
        self.stop = True
        if self.thread:
            self.thread.join(timeout=2)
            try:
                self.sock.close()
            except Exception:
                pass


def chunked(body, n=3):
    size = max(1, len(body) // n)
    out = b"HTTP/1.1 200 OK\r\ncontent-type: application/json\r\ntransfer-encoding: chunked\r\nconnection: close\r\n\r\n"
    for i in range(0, len(body), size):
        part = body[i:i + size]
        out += b"%x\r\n" % len(part) + part + b"\r\n"
    return out + b"0\r\n\r\n"


def header_model(s):
    """The property's rule: split at the first colon, trim; refuse without colon / with empty or blank-containing name."""
    if ":" not in s:
        return None
    name, value = s.split(":", 1)
    name, value = name.strip(), value.strip()
    if not name or len(name.split()) > 1:
        return None
    return (name.lower(), value)


def header_alphabet():
    out = []
    for name, sep, value in itertools.product(["X-A", " X-A ", "", "X A", "X\tA"], [":", " : ", ""], ["v", "", "a:b", " v ", "en, fr;q=0.8", "edge-1,via:edge-2", "a=b; c=\"d\""]):
        s = name + sep + value
        m = header_model(s)
        if m is not None and not re.match(r"^[!#$%&'*+\-.^_`|~0-9A-Za-z]+$", m[0]):
            continue   # a name that is not an HTTP token cannot be carried by any client: outside the property's domain
        if s not in out:
            out.append(s)
    return out


def served_schemas():
    core = space.core_schema()
    small = gql.Schema([gql.obj("Q", [gql.FieldDef("e", "String", dep=("dépassé é",)), gql.FieldDef("x", "[Int!]", dep=('no "more" \\ ✓',))]), gql.enum("E", ["A"])], {"query": "Q"})
    small_text = small.introspection(wrapped=True)
    # the same document with \\u escapes instead of raw non-ASCII
    small_escaped = json.dumps(json.loads(small_text), ensure_ascii=True)
    return {"core": (core, core.introspection(wrapped=True)), "small": (small, small_text), "small_escaped": (small, small_escaped)}


def run(tier):
    rep = Report("C20", "fault_enumeration", tier)
    cli = build_cli()
    build_workers()
    base = os.path.join(WORK, "c20")
    shutil.rmtree(base, ignore_errors=True)
    os.makedirs(base)
    docs = {}
    for key, fn in DOCS.items():
        with open(os.path.join(GQL_DIR, fn), encoding="utf-8") as f:
            text = f.read()
        m = re.search(r"\bquery\s+([A-Za-z_0-9]+)", text)
        docs[key] = (text, m.group(1))
    schemas = served_schemas()
    ok_small = {"kind": "reply", "status": 200, "body": schemas["small"][1].encode(), "schema": "small"}
    cases = []
    # ---------------------------------------------------------------- request model
    halpha = header_alphabet()
    for one_of, by_url, auth, no_ssl in itertools.product([False, True], [False, True], [None, "tok3n", "two words"], [False, True]):
        for hs in ([], ["X-A: v", "Y-B:w:z"]):
            # (--no-ssl only relaxes certificate checks: against a plain-http endpoint it must change nothing)
            cases.append({"group": "request", "one_of": one_of, "by_url": by_url, "auth": auth, "headers": hs, "output": "none", "behaviour": ok_small,
                          "no_ssl": no_ssl})
    for h in halpha:
        cases.append({"group": "header", "one_of": False, "by_url": False, "auth": None, "headers": [h], "output": "existing", "behaviour": ok_small})
    for h1, h2 in [("X-A: v", " Y-B : w "), ("X-A:v", "X-A:again"), ("X-A: v", "nocolon"), ("X A: v", "Y-B: w")]:
        cases.append({"group": "header", "one_of": True, "by_url": False, "auth": "t", "headers": [h1, h2], "output": "new", "behaviour": ok_small})
    # ---------------------------------------------------------------- server behaviours x output placement
    behaviours = [
        ("200 core schema", {"kind": "reply", "status": 200, "body": schemas["core"][1].encode(), "schema": "core"}),
        ("200 small schema, raw non-ASCII", {"kind": "reply", "status": 200, "body": schemas["small"][1].encode(), "schema": "small"}),
        ("200 small schema, \\u escapes", {"kind": "reply", "status": 200, "body": schemas["small_escaped"][1].encode(), "schema": "small_escaped"}),
        ("201 small schema", {"kind": "reply", "status": 201, "body": schemas["small"][1].encode(), "schema": "small"}),
        ("200 garbage", {"kind": "reply", "status": 200, "body": b"<html>not json</html>"}),
        ("200 empty body", {"kind": "reply", "status": 200, "body": b""}),
        ("200 truncated json", {"kind": "reply", "status": 200, "body": schemas["small"][1].encode()[:-7]}),
        # bodies that begin with a complete JSON value but are not a JSON document
        ("200 json followed by garbage", {"kind": "reply", "status": 200, "body": schemas["small"][1].encode() + b"\n<html>proxy banner</html>"}),
        ("200 two json values", {"kind": "reply", "status": 200, "body": b"{}{}"}),
        ("200 garbage that starts like a number", {"kind": "reply", "status": 200, "body": b"123abc"}),
        ("200 garbage that starts like null", {"kind": "reply", "status": 200, "body": b"null oops"}),
        ("200 complete json, content-length promises more", {"kind": "reply", "status": 200, "body": b"", "raw": (
            "HTTP/1.1 200 OK\r\ncontent-type: application/json\r\ncontent-length: %d\r\nconnection: close\r\n\r\n"
            % (len(schemas["small"][1].encode()) + 64)).encode() + schemas["small"][1].encode()}),
        # ... and two that are JSON documents in an unusual transport form
        ("200 small schema, trailing whitespace", {"kind": "reply", "status": 200, "body": schemas["small"][1].encode() + b" \r\n\t\n", "schema": "small"}),
        ("200 small schema, chunked", {"kind": "reply", "status": 200, "body": b"", "schema": "small", "raw": chunked(schemas["small"][1].encode())}),
        # the body's bytes are UTF-8 JSON whatever a charset parameter claims; bytes that are not UTF-8 are not JSON
        ("200 small schema, content-type says charset=ISO-8859-1", {"kind": "reply", "status": 200, "body": schemas["small"][1].encode(), "schema": "small",
                                                                     "ctype": "application/json; charset=ISO-8859-1"}),
        ("200 small schema, content-type says charset=utf-16", {"kind": "reply", "status": 200, "body": schemas["small"][1].encode(), "schema": "small",
                                                                 "ctype": "application/json;charset=utf-16"}),
        ("200 small schema, UTF-8 BOM in front", {"kind": "reply", "status": 200, "body": b"\xef\xbb\xbf" + schemas["small"][1].encode()}),
        ("200 invalid UTF-8 inside a JSON string", {"kind": "reply", "status": 200, "body": schemas["small"][1].encode().replace(b"\xc3\xa9", b"\xff\xfe", 1)}),
        ("204 no content", {"kind": "reply", "status": 204, "body": b""}),
        ("400 json body", {"kind": "reply", "status": 400, "body": b'{"errors":[{"message":"bad"}]}'}),
        ("401 text body", {"kind": "reply", "status": 401, "body": b"unauthorized", "ctype": "text/plain"}),
        ("404 text body", {"kind": "reply", "status": 404, "body": b"not found", "ctype": "text/plain"}),
        ("404 valid schema body", {"kind": "reply", "status": 404, "body": schemas["small"][1].encode()}),
        ("500 json body", {"kind": "reply", "status": 500, "body": b'{"error":"boom"}'}),
        ("500 valid schema body", {"kind": "reply", "status": 500, "body": schemas["small"][1].encode()}),
        ("503 text body", {"kind": "reply", "status": 503, "body": b"unavailable", "ctype": "text/plain"}),
        ("301 without location", {"kind": "reply", "status": 301, "body": b""}),
    ] + [
        # every status class once more with a body that IS a valid schema: only 2xx may write it (redirects the client
        # cannot follow - no Location -, not-modified, unusual 4xx / 5xx codes and the edges of each range)
        ("%d valid schema body" % st, {"kind": "reply", "status": st, "body": schemas["small"][1].encode()})
        for st in (300, 302, 303, 304, 305, 307, 308, 399, 402, 418, 451, 499, 501, 502, 599)
    ] + [
        ("%d small schema" % st, {"kind": "reply", "status": st, "body": schemas["small"][1].encode(), "schema": "small"})
        for st in (202, 203, 299)
    ] + [
        ("connection refused", {"kind": "refused"}),
        ("closed before reply", {"kind": "close_before_reply"}),
        ("garbage instead of http", {"kind": "reply", "status": 0, "raw": b"\x00\x01garbage\r\n\r\n", "body": b""}),
    ]
    for (bdesc, b), output in itertools.product(behaviours, ["none", "new", "existing"]):
        cases.append({"group": "behaviour", "bdesc": bdesc, "one_of": False, "by_url": False, "auth": None, "headers": [], "output": output, "behaviour": b})
        if output != "none":
            # the same with --output written relative to the working directory
            cases.append({"group": "behaviour", "bdesc": bdesc, "one_of": False, "by_url": False, "auth": None, "headers": [], "output": output, "behaviour": b,
                          "relative_output": True})
    full = ("HTTP/1.1 200 OK\r\ncontent-type: application/json\r\ncontent-length: %d\r\nconnection: close\r\n\r\n" % len(schemas["small"][1].encode())).encode() + schemas["small"][1].encode()
    outputs_for_cut = ["existing"] if tier == "quick" else ["existing", "new", "none"]
    for output in outputs_for_cut:
        for k in range(0, len(full) + 1):
            cases.append({"group": "cut", "bdesc": "closed after %d of %d bytes" % (k, len(full)), "one_of": False, "by_url": False, "auth": None, "headers": [],
                          "output": output, "behaviour": {"kind": "cut", "k": k, "raw": full, "status": 200, "body": b"", "schema": "small" if k == len(full) else None},
                          "complete": k == len(full)})

    def invoke(item):
        i, c = item
        root = os.path.join(base, "i%05d" % i)
        os.makedirs(root)
        mock = Mock(c["behaviour"])
        argv = [cli, "introspect-schema", "http://127.0.0.1:%d/graphql" % mock.port]
        outp = None
        if c["output"] != "none":
            outp = os.path.join(root, "schema.json")
            argv += ["--output", "schema.json" if c.get("relative_output") else outp]   # (the command runs with cwd = root)
            if c["output"] == "existing":
                with open(outp, "wb") as f:
                    f.write(SENTINEL)
        if c["auth"]:
            argv += ["--authorization", c["auth"]]
        for h in c["headers"]:
            argv += ["--header", h]
        if c["one_of"]:
            argv += ["--is-one-of"]
        if c["by_url"]:
            argv += ["--specify-by-url"]
        if c.get("no_ssl"):
            argv += ["--no-ssl"]
        env = base_env()
        rc, out, err = run_process(argv, timeout=60, cwd=root, env=env)
        mock.close()
        content = None
        if outp and os.path.exists(outp):
            with open(outp, "rb") as f:
                content = f.read()
        return {"rc": rc, "stdout": out, "stderr": (err or "")[-300:], "requests": mock.requests, "connections": mock.connections,
                "file": content, "path": outp}

    log(f"[C20] {len(cases)} invocations")
    results = parallel_map(invoke, list(enumerate(cases)), nthreads=16)
    outcomes = {}
    distinct = set()
    conformance = []
    for c, r in zip(cases, results):
        label = {"group": c["group"], "flags": {"is_one_of": c["one_of"], "specify_by_url": c["by_url"], "authorization": c["auth"], "headers": c["headers"], "no_ssl": bool(c.get("no_ssl"))},
                 "output": c["output"] + (" (relative path)" if c.get("relative_output") else ""), "server": c.get("bdesc", "200 small schema")}
        distinct.add(json.dumps(label, sort_keys=True))
        models = [header_model(h) for h in c["headers"]]
        refused_by_cli = any(m is None for m in models)
        b = c["behaviour"]
        sigs = set()
        if c["output"] == "existing":
            sigs.add("existing_output_file_and_failing_run")
        if refused_by_cli:
            outcomes["header_refused"] = outcomes.get("header_refused", 0) + 1
            if r["rc"] == 0:
                rep.violation("invalid_header_accepted", label, {"requests": r["requests"][:1]})
            if r["connections"] != 0:
                rep.violation("connection_made_despite_invalid_header", label, r["connections"])
            if c["output"] == "existing" and r["file"] != SENTINEL:
                rep.violation("output_file_touched_on_failure", label, {"file": r["file"][:80] if r["file"] is not None else None}, sigs)
            continue
        # ---- the request
        expect_conn = 0 if b["kind"] == "refused" else 1
        if r["connections"] != expect_conn:
            rep.violation("number_of_connections", label, {"connections": r["connections"], "expected": expect_conn})
        if r["requests"] and "line" in r["requests"][0]:
            q = r["requests"][0]
            problems = []
            if not q["line"].startswith("POST /graphql "):
                problems.append("request line %r" % q["line"])
            try:
                body = json.loads(q["body"])
            except Exception:
                body = None
            text, opname = docs[(c["one_of"], c["by_url"])]
            if not isinstance(body, dict) or sorted(body) != ["operationName", "query", "variables"]:
                problems.append("body members %r" % (sorted(body) if isinstance(body, dict) else q["body"][:100]))
            else:
                if body["query"] != text:
                    problems.append("query is not the selected introspection document")
                if body["operationName"] != opname:
                    problems.append("operationName %r, expected %r" % (body["operationName"], opname))
                if body["variables"] is not None:
                    problems.append("variables %r" % (body["variables"],))
            hs = q["headers"]
            hd = {}
            for k, v in hs:
                hd.setdefault(k, []).append(v)
            if hd.get("content-type") != ["application/json"]:
                problems.append("content-type %r" % hd.get("content-type"))
            if hd.get("accept") != ["application/json"]:
                problems.append("accept %r" % hd.get("accept"))
            if c["auth"]:
                if hd.get("authorization") != ["Bearer " + c["auth"]]:
                    problems.append("authorization %r" % hd.get("authorization"))
            elif "authorization" in hd:
                problems.append("unexpected authorization header")
            want = {}
            for name, value in models:
                want.setdefault(name, []).append(value)
            for name, values in want.items():
                if hd.get(name) != values:
                    problems.append("header %s: %r, expected %r" % (name, hd.get(name), values))
            if len(r["requests"]) != 1:
                problems.append("%d requests" % len(r["requests"]))
            if problems:
                rep.violation("request_differs_from_model", label, problems)
        # ---- the outcome
        success = b["kind"] in ("reply", "cut") and 200 <= b.get("status", 0) < 300 and b.get("schema") is not None and (b["kind"] != "cut" or c.get("complete"))
        if success:
            outcomes["success"] = outcomes.get("success", 0) + 1
            served = json.loads(schemas[b["schema"]][1])
            if r["rc"] != 0:
                rep.violation("failed_on_2xx_json_reply", label, r["stderr"])
                continue
            got_text = r["stdout"] if c["output"] == "none" else (r["file"] or b"").decode("utf-8", "replace")
            try:
                got = json.loads(got_text)
            except Exception as e:
                rep.violation("output_is_not_json", label, str(e))
                continue
            if got != served:
                rep.violation("output_differs_from_served_schema", label, "JSON values differ")
            if c["output"] != "none" and c["group"] == "behaviour":
                conformance.append((label, r["path"], b["schema"]))
        else:
            outcomes["failure"] = outcomes.get("failure", 0) + 1
            if r["rc"] == 0:
                rep.violation("exit_zero_on_failed_introspection", label, {"stdout": r["stdout"][:120]}, set())
            if c["output"] == "existing" and r["file"] != SENTINEL:
                rep.violation("output_file_touched_on_failure", label, {"file": (r["file"] or b"")[:80].decode("utf-8", "replace"), "rc": r["rc"]}, sigs)
            if c["output"] == "new" and r["file"] is not None:
                # not demanded by the property (there was no earlier output to protect); recorded only
                outcomes["new_file_left_behind_by_failed_run"] = outcomes.get("new_file_left_behind_by_failed_run", 0) + 1
    # ---- the written file generates the same code as the schema's SDL (keep the files until here)
    lib = space.fragment_library()
    reqs = []
    for label, path, skey in conformance:
        schema = schemas[skey][0]
        if skey == "core":
            sel = [Field("me", [Field("id"), Field("role"), Field("legacy"), Spread("UserA"), Field("pet", [TN(), Inline("Cat", [Field("lives")])])]),
                   Field("search", [TN(), Field("id")], args=[("filter", "$f")])]
            doc = Doc(space.used_fragments(sel, lib) + [Op("query", "Op", sel, [("f", "Filter", None), ("p", "Pick", None)])])
        else:
            doc = Doc([Op("query", "Op", [Field("e"), Field("x")])])
        q = gql.render_doc(doc)
        from common import scratch_file
        reqs.append({"op": "gen", "schema_path": path, "query_text": q, "options": {"mode": "cli"}})
        reqs.append({"op": "gen", "schema_path": scratch_file(schema.sdl(), "graphql"), "query_text": q, "options": {"mode": "cli"}})
    gres = run_cases(reqs)
    for i, (label, path, skey) in enumerate(conformance):
        a, b2 = gres[2 * i], gres[2 * i + 1]
        if a.get("status") != "ok" or b2.get("status") != "ok" or a["tokens"] != b2["tokens"]:
            rep.violation("written_schema_generates_different_code", label, {"from_file": a.get("status"), "from_sdl": b2.get("status"), "msg": a.get("msg")})
    shutil.rmtree(base, ignore_errors=True)
    connected = sum(1 for r in results if r["connections"] > 0)
    cov = {
        "evaluations": len(cases), "distinct_nontrivial": len(distinct),
        "rule": "request model: {is-one-of} x {specify-by-url} x {authorization} x {no headers, two headers}; every header string of "
                "the alphabet 5 names x 3 separators x 7 values (incl. commas, semicolons, quotes, further colons) (and 4 pairs) with an existing output file; behaviours: 30 scripted "
                "replies x {stdout, new file, existing file}; connection closed after k bytes for every k of a 200 reply with "
                "content-length (%s). distinct = (flags, headers, output placement, server behaviour)" %
                ("output = existing file" if tier == "quick" else "all three output placements"),
        "invocations_with_a_connection": connected, "cut_points": sum(1 for c in cases if c["group"] == "cut"),
        "schemas_round_tripped_through_generator": len(conformance),
        "distinct_outcomes": outcomes, "exhaustive": False,
        "samples": pick_samples([{"server": c.get("bdesc", "200"), "output": c["output"], "headers": c["headers"]} for c in cases], 8),
    }
    return rep.finish(cov, ["no TLS endpoint: --no-ssl is not exercised", "proxies disabled in the environment",
                            "served JSON contains only strings, booleans, nulls and small integers, so equality as JSON values is exact"])
