"""Shared infrastructure: builds, worker pool, evidence writer, known-findings matcher.

Python 3.11, stdlib only. Every deciding step in the checks is an exhaustive enumeration; this
module only runs cases and counts them.
"""
import hashlib
import json
import os
import queue
import select
import signal
import subprocess
import sys
import threading
import time

ROOT = os.path.dirname(os.path.dirname(os.path.abspath(__file__)))
WORK = os.path.join(ROOT, ".work")
REPO = "/repo"
TARGET = os.path.join(WORK, "target")
VW = os.path.join(TARGET, "release", "vw")
GUARD = "graphql_client_verif"
NCPU = min(16, os.cpu_count() or 4)

EXIT_OK, EXIT_VIOLATION, EXIT_MACHINERY = 0, 1, 2


class Machinery(Exception):
    """The harness itself failed (build error, worker unusable). Never a verdict."""


def base_env():
    env = dict(os.environ)
    env["CARGO_NET_OFFLINE"] = "true"
    env["RUST_BACKTRACE"] = "0"
    env["CARGO_TERM_COLOR"] = "never"
    env.pop("RUSTC_WRAPPER", None)
    for k in ("http_proxy", "https_proxy", "HTTP_PROXY", "HTTPS_PROXY", "ALL_PROXY", "all_proxy"):
        env.pop(k, None)
    env["NO_PROXY"] = "*"
    return env


def hooks_env():
    env = base_env()
    env["RUSTFLAGS"] = "--cfg " + GUARD
    env["CARGO_TARGET_DIR"] = TARGET
    return env


def log(*a):
    print(*a, file=sys.stderr, flush=True)


_built = {}


def build_workers():
    """(Re)build the worker from /repo's current working tree with hooks enabled."""
    if _built.get("vw"):
        return VW
    os.makedirs(WORK, exist_ok=True)
    t0 = time.time()
    p = subprocess.run(["cargo", "build", "--release", "--offline", "-q"], cwd=os.path.join(ROOT, "rs"),
                       env=hooks_env(), stdout=subprocess.PIPE, stderr=subprocess.STDOUT, text=True)
    if p.returncode != 0:
        raise Machinery("worker build failed (the tree must compile):\n" + p.stdout[-4000:])
    _built["vw"] = True
    log(f"[build] vw ready in {time.time()-t0:.1f}s")
    return VW


def build_cli():
    """Build the real graphql-client binary from the current tree (hooks on, separate from workers)."""
    if _built.get("cli"):
        return _built["cli"]
    env = hooks_env()
    env["CARGO_TARGET_DIR"] = os.path.join(WORK, "target-cli")
    t0 = time.time()
    p = subprocess.run(["cargo", "build", "--release", "--offline", "-q", "-p", "graphql_client_cli"], cwd=REPO,
                       env=env, stdout=subprocess.PIPE, stderr=subprocess.STDOUT, text=True)
    if p.returncode != 0:
        raise Machinery("CLI build failed:\n" + p.stdout[-4000:])
    path = os.path.join(WORK, "target-cli", "release", "graphql-client")
    _built["cli"] = path
    log(f"[build] cli ready in {time.time()-t0:.1f}s")
    return path


def sha(text):
    if isinstance(text, str):
        text = text.encode()
    return hashlib.sha256(text).hexdigest()


def scratch_file(text, ext, sub="schemas"):
    """Content-addressed scratch file (the schema cache never evicts: same path <=> same text)."""
    d = os.path.join(WORK, "scratch", sub)
    os.makedirs(d, exist_ok=True)
    p = os.path.join(d, sha(text)[:24] + "." + ext)
    if not os.path.exists(p):
        tmp = p + ".%d.tmp" % os.getpid()
        with open(tmp, "w", encoding="utf-8", newline="") as f:
            f.write(text)
        os.replace(tmp, p)
    return p


class Worker:
    def __init__(self, argv=None):
        self.argv = argv or [VW, "serve"]
        self.proc = None
        self.buf = b""
        self.served = 0

    def start(self):
        self.proc = subprocess.Popen(self.argv, stdin=subprocess.PIPE, stdout=subprocess.PIPE,
                                     stderr=subprocess.DEVNULL, env=base_env())
        self.buf = b""
        self.served = 0

    def stop(self):
        if self.proc:
            try:
                self.proc.kill()
            except Exception:
                pass
            try:
                self.proc.wait(timeout=5)
            except Exception:
                pass
            self.proc = None

    def _readline(self, deadline):
        fd = self.proc.stdout.fileno()
        while b"\n" not in self.buf:
            left = deadline - time.time()
            if left <= 0:
                return None
            r, _, _ = select.select([fd], [], [], min(left, 1.0))
            if r:
                chunk = os.read(fd, 1 << 16)
                if not chunk:
                    return b""  # EOF
                self.buf += chunk
        line, self.buf = self.buf.split(b"\n", 1)
        return line + b"\n"

    def call(self, req, timeout=20.0):
        """Run one request. Returns the response dict; a dead or hung worker is reported as
        {"status": "died"|"timeout", ...} and the process is replaced."""
        for attempt in range(3):
            r = self._call(req, timeout)
            # A worker that had already retired (it exits after reporting a panic) never printed
            # BEGIN for this request: that is not an observation about this case - ask again.
            if r.get("status") == "died" and not r.get("began") and attempt < 2:
                continue
            if r.get("status") == "panic" and not req.get("keep_after_panic"):
                self.stop()
            return r

    def _call(self, req, timeout):
        if self.proc is None or self.proc.poll() is not None or self.served > 50000:
            self.stop()
            self.start()
        data = (json.dumps(req) + "\n").encode()
        try:
            self.proc.stdin.write(data)
            self.proc.stdin.flush()
        except (BrokenPipeError, OSError):
            self.stop()
            self.start()
            self.proc.stdin.write(data)
            self.proc.stdin.flush()
        deadline = time.time() + timeout
        began = False
        while True:
            line = self._readline(deadline)
            if line is None:
                self.stop()
                return {"status": "timeout", "began": began, "id": req.get("id")}
            if line == b"":
                rc = self.proc.wait()
                self.stop()
                return {"status": "died", "began": began, "returncode": rc, "id": req.get("id"),
                        "signal": (signal.Signals(-rc).name if rc < 0 else None)}
            if line.startswith(b"BEGIN "):
                began = True
                continue
            try:
                resp = json.loads(line)
            except Exception:
                continue
            self.served += 1
            return resp


def run_cases(reqs, nworkers=None, timeout=20.0, progress=None):
    """Run all requests on a pool of workers; returns responses in request order."""
    build_workers()
    n = len(reqs)
    if n == 0:
        return []
    nworkers = max(1, min(nworkers or NCPU, n))
    out = [None] * n
    q = queue.Queue()
    for i, r in enumerate(reqs):
        q.put((i, r))
    done = [0]
    lock = threading.Lock()

    def loop():
        w = Worker()
        try:
            while True:
                try:
                    i, r = q.get_nowait()
                except queue.Empty:
                    break
                if "id" not in r:
                    r = dict(r, id=i)
                out[i] = w.call(r, timeout=timeout)
                with lock:
                    done[0] += 1
                    if progress and done[0] % progress == 0:
                        log(f"  ... {done[0]}/{n}")
        finally:
            w.stop()

    ts = [threading.Thread(target=loop, daemon=True) for _ in range(nworkers)]
    for t in ts:
        t.start()
    for t in ts:
        t.join()
    return out


def run_process(argv, stdin=None, timeout=60, cwd=None, env=None):
    """Run one fresh process; returns (returncode or None on timeout, stdout, stderr)."""
    try:
        p = subprocess.run(argv, input=stdin, stdout=subprocess.PIPE, stderr=subprocess.PIPE, text=True,
                           timeout=timeout, cwd=cwd, env=env or base_env())
        return p.returncode, p.stdout, p.stderr
    except subprocess.TimeoutExpired as e:
        return None, (e.stdout or b"").decode("utf-8", "replace") if isinstance(e.stdout, bytes) else (e.stdout or ""), "timeout"


def parallel_map(fn, items, nthreads=None):
    n = len(items)
    out = [None] * n
    q = queue.Queue()
    for i, it in enumerate(items):
        q.put((i, it))
    err = []

    def loop():
        while True:
            try:
                i, it = q.get_nowait()
            except queue.Empty:
                return
            try:
                out[i] = fn(it)
            except Exception as e:  # machinery problem: surface it
                err.append(e)
                return

    ts = [threading.Thread(target=loop, daemon=True) for _ in range(max(1, min(nthreads or NCPU, n)))]
    for t in ts:
        t.start()
    for t in ts:
        t.join()
    if err:
        raise err[0]
    return out


# ---------------------------------------------------------------------------------------------
# Known findings, violations, evidence
# ---------------------------------------------------------------------------------------------

def load_known(prop):
    p = os.path.join(ROOT, "known_findings.json")
    if not os.path.exists(p):
        return []
    with open(p) as f:
        data = json.load(f)
    return [e for e in data.get("findings", []) if prop in e.get("properties", [e.get("property")])]


def repo_fingerprint():
    """HEAD + a digest of the working-tree diff of /repo (what the checks are building from)."""
    try:
        head = subprocess.run(["git", "-C", REPO, "rev-parse", "HEAD"], stdout=subprocess.PIPE, text=True).stdout.strip()
        diff = subprocess.run(["git", "-C", REPO, "diff", "HEAD"], stdout=subprocess.PIPE).stdout
        untracked = subprocess.run(["git", "-C", REPO, "status", "--porcelain"], stdout=subprocess.PIPE, text=True).stdout
        return head + ":" + sha(diff)[:16] + ":" + sha(untracked)[:8]
    except Exception:
        return "unknown"


class Report:
    """Collects violations of one check run, matches them against the known-findings file, prints
    the VIOLATION / KNOWN-FINDING lines and writes the evidence file."""

    def __init__(self, prop, level, tier):
        self.prop = prop
        self.level = level
        self.tier = tier
        self.t0 = time.time()
        self.violations = []  # dicts: {kind, sigs:[predicate names], case:{...}, detail}
        self.known = [e for e in load_known(prop) if e.get("status") == "known"]
        self.coverage = {}
        self.assumptions = []
        self.caps = []
        self.seed = int(os.environ.get("VERIF_SEED", "0") or 0)
        self.repo_at_start = repo_fingerprint()

    def violation(self, kind, case, detail, sigs=(), groups=None):
        """sigs: predicates any one of which explains the violation; groups (optional): one set of
        predicates per failing position, every one of which must be explained."""
        v = {"kind": kind, "sigs": sorted(set(sigs)), "case": case, "detail": detail}
        if groups is not None:
            v["sig_groups"] = [sorted(g) for g in groups]
        self.violations.append(v)

    def finish(self, coverage, assumptions=()):
        replay = os.environ.get("VERIF_REPLAY_DIGEST")
        if replay:
            # `./vf replay <file>`: the same exploration is re-run and the recorded case looked up in it
            for v in self.violations:
                if sha(json.dumps(v, sort_keys=True, default=str))[:16] == replay:
                    print(f"REPRODUCED property={self.prop} digest={replay} kind={v['kind']}")
                    print(json.dumps(v["detail"], default=str)[:600])
                    return EXIT_VIOLATION
            print(f"NOT REPRODUCED property={self.prop} digest={replay} ({len(self.violations)} violations on this run)")
            return EXIT_OK
        if repo_fingerprint() != self.repo_at_start:
            # somebody edited /repo while the exploration was running: what was observed is a mixture
            raise Machinery("/repo changed while the check was running (%s -> %s); no verdict" % (self.repo_at_start, repo_fingerprint()))
        cov = dict(coverage)
        cov["repo_state"] = self.repo_at_start
        unknown, matched = [], {}
        for v in self.violations:
            hit = None
            if v.get("sig_groups"):
                known_preds = {e["predicate"]: e for e in self.known if not e.get("kinds") or v["kind"] in e["kinds"]}
                if all(any(p in known_preds for p in g) for g in v["sig_groups"]):
                    hit = known_preds[next(p for p in v["sig_groups"][0] if p in known_preds)]
            else:
                for e in self.known:
                    if e["predicate"] in v["sigs"] and (not e.get("kinds") or v["kind"] in e["kinds"]):
                        hit = e
                        break
            if hit is None:
                unknown.append(v)
            else:
                matched.setdefault(hit["id"], [hit, 0, v])
                matched[hit["id"]][1] += 1
        for kid, (e, cnt, first) in sorted(matched.items()):
            print(f"KNOWN-FINDING: property={self.prop} {kid}: {e['what']} [{cnt} case(s) on this run]", flush=True)
        rdir = os.path.join(ROOT, "replays", self.prop)
        printed = 0
        seen_kinds = {}
        for v in unknown:
            k = v["kind"]
            seen_kinds[k] = seen_kinds.get(k, 0) + 1
            if seen_kinds[k] > 40:
                continue  # enough replay files of this kind; the count in the evidence stays complete
            digest = sha(json.dumps(v, sort_keys=True, default=str))[:16]
            os.makedirs(rdir, exist_ok=True)
            path = os.path.join(rdir, digest + ".json")
            with open(path, "w") as f:
                json.dump({"property": self.prop, "tier": self.tier, **v}, f, indent=1, default=str)
            if seen_kinds[k] <= 5 and printed < 40:
                printed += 1
                print(f"VIOLATION property={self.prop} replay={path}", flush=True)
                log(f"  kind={k} detail={str(v['detail'])[:300]}")
        if len(unknown) > printed:
            log(f"  ({len(unknown)-printed} further violations; up to 40 replay files per kind in {rdir})")
        cov.setdefault("samples", [])
        cov["known_findings_matched"] = {k: c for k, (e, c, _) in matched.items()}
        if self.caps:
            cov["caps_hit"] = self.caps
            cov["exhaustive"] = False
        ev = {
            "property_id": self.prop, "tier": self.tier, "seed": self.seed, "level": self.level,
            "coverage": cov, "assumptions": list(assumptions) + self.assumptions,
            "wall_s": round(time.time() - self.t0, 2), "violations": len(unknown),
        }
        os.makedirs(os.path.join(ROOT, "evidence"), exist_ok=True)
        with open(os.path.join(ROOT, "evidence", self.prop + ".json"), "w") as f:
            json.dump(ev, f, indent=1, default=str)
        log(f"[{self.prop}] tier={self.tier} wall={ev['wall_s']}s violations={len(unknown)} "
            f"known={sum(c for _, c, _ in matched.values())} coverage="
            + json.dumps({k: v for k, v in cov.items() if isinstance(v, (int, float, bool))}))
        return EXIT_VIOLATION if unknown else EXIT_OK


def pick_samples(items, n=6):
    """First, last and evenly spaced items (deterministic)."""
    items = list(items)
    if len(items) <= n:
        return items
    step = max(1, len(items) // n)
    return [items[i] for i in range(0, len(items), step)][:n]
