"""The farm: consumer crates that compile generated code with rustc and run it with serde_json.

One case = one generated token stream (possibly several operation modules) pasted verbatim into
its own file, plus what the README asks the consumer to supply (custom scalar aliases, extern
enums) and ~15 lines of glue. Cases are spread over shard crates of one cargo workspace; compile
errors are attributed to cases through the span file names of rustc's JSON diagnostics.
"""
import json
import os
import re
import shutil
import subprocess
import time

from common import WORK, REPO, NCPU, base_env, sha, log, Machinery, parallel_map

FARM_TARGET = os.path.join(WORK, "target-farm")

MAIN_TEMPLATE = r'''#![allow(warnings)]
use std::io::{BufRead, Write};
pub mod scalars { pub type Date = String; pub type DateTime = String; pub type date_time = String; pub type JSON = serde_json::Value; }
%(mods)s
fn dispatch(case: &str, module: &str, what: &str, arg: serde_json::Value) -> Result<String, String> {
    match case {
%(arms)s
        _ => Err(format!("farm: no such case {}", case)),
    }
}
fn main() {
    let stdin = std::io::stdin();
    let stdout = std::io::stdout();
    let mut out = std::io::BufWriter::new(stdout.lock());
    for line in stdin.lock().lines() {
        let line = match line { Ok(l) => l, Err(_) => break };
        if line.is_empty() { continue; }
        let req: serde_json::Value = match serde_json::from_str(&line) { Ok(v) => v, Err(e) => { let _ = writeln!(out, "{}", serde_json::json!({"machinery": e.to_string()})); continue; } };
        let case = req["case"].as_str().unwrap_or("").to_string();
        let module = req["module"].as_str().unwrap_or("").to_string();
        let what = req["what"].as_str().unwrap_or("").to_string();
        let arg = req["arg"].clone();
        let r = std::panic::catch_unwind(move || dispatch(&case, &module, &what, arg));
        let resp = match r {
            Ok(Ok(s)) => serde_json::json!({"ok": true, "out": s}),
            Ok(Err(e)) => serde_json::json!({"ok": false, "err": e}),
            Err(_) => serde_json::json!({"panic": true}),
        };
        let _ = writeln!(out, "{}", resp);
    }
    let _ = out.flush();
}
'''

CASE_GLUE_HEAD = '''#![allow(warnings)]
use serde::{Serialize, Deserialize};
%(prelude)s
%(tokens)s
pub fn call(module: &str, what: &str, arg: serde_json::Value) -> Result<String, String> {
    match (module, what) {
'''

STUB = '''#![allow(warnings)]
pub fn call(module: &str, what: &str, arg: serde_json::Value) -> Result<String, String> {
    Err("farm: case does not compile (stub)".to_string())
}
'''


def glue_arms(mod_name, struct_name, resp=True, vars_=True):
    arms = []
    if resp:
        arms.append('''        ("%(m)s", "resp") => { let v: %(m)s::ResponseData = serde_json::from_value(arg).map_err(|e| e.to_string())?; serde_json::to_string(&v).map_err(|e| format!("SER:{}", e)) }
        ("%(m)s", "resp_str") => { let v: %(m)s::ResponseData = serde_json::from_str(arg.as_str().unwrap_or("")).map_err(|e| e.to_string())?; serde_json::to_string(&v).map_err(|e| format!("SER:{}", e)) }
''' % {"m": mod_name})
    if vars_:
        arms.append('''        ("%(m)s", "vars") => { let v: %(m)s::Variables = serde_json::from_value(arg).map_err(|e| e.to_string())?; serde_json::to_string(&<%(s)s as graphql_client::GraphQLQuery>::build_query(v)).map_err(|e| format!("SER:{}", e)) }
''' % {"m": mod_name, "s": struct_name})
    arms.append('''        ("%(m)s", "const") => Ok(serde_json::json!({"query": %(m)s::QUERY, "operation_name": %(m)s::OPERATION_NAME}).to_string()),
''' % {"m": mod_name})
    return "".join(arms)


class Case:
    def __init__(self, tokens, modules, prelude="", resp=True, vars_=True, extra_glue=""):
        """modules: list of (module name, struct name)."""
        self.tokens = tokens
        self.modules = modules
        self.prelude = prelude
        self.resp = resp
        self.vars = vars_
        self.extra_glue = extra_glue
        self.id = sha(json.dumps([tokens, modules, prelude, resp, vars_, extra_glue]))[:16]
        self.compiles = None
        self.errors = []

    def source(self):
        s = CASE_GLUE_HEAD % {"prelude": self.prelude, "tokens": self.tokens}
        for m, st in self.modules:
            s += glue_arms(m, st, self.resp, self.vars)
        s += self.extra_glue
        s += '        _ => Err(format!("farm: no entry {}/{}", module, what)),\n    }\n}\n'
        return s


def write_if_changed(path, text):
    try:
        with open(path, encoding="utf-8") as f:
            if f.read() == text:
                return False
    except FileNotFoundError:
        pass
    with open(path, "w", encoding="utf-8") as f:
        f.write(text)
    return True


class Farm:
    def __init__(self, name, nshards=NCPU):
        self.name = name
        self.dir = os.path.join(WORK, "farm", name)
        self.nshards = nshards
        self.cases = {}
        self.stubbed = set()
        self.build_s = 0.0
        self.rounds = 0
        self.file_alias = {}  # absolute path of a file mounted by a case (#[path]) -> case id

    def add(self, case, mounts=()):
        self.cases[case.id] = case
        for m in mounts:
            self.file_alias[m] = case.id
        return case.id

    def shard_of(self, cid):
        return int(cid[:8], 16) % self.nshards

    def _pkg(self, i):
        return "%s_s%02d" % (self.name, i)

    def _write(self):
        os.makedirs(self.dir, exist_ok=True)
        members = []
        by_shard = {i: [] for i in range(self.nshards)}
        for cid in sorted(self.cases):
            by_shard[self.shard_of(cid)].append(cid)
        for i in range(self.nshards):
            d = os.path.join(self.dir, self._pkg(i))
            os.makedirs(os.path.join(d, "src"), exist_ok=True)
            members.append(self._pkg(i))
            write_if_changed(os.path.join(d, "Cargo.toml"), '''[package]
name = "%s"
version = "0.0.0"
edition = "2021"
publish = false
[dependencies]
serde = { version = "1", features = ["derive"] }
serde_json = "1"
graphql_client = { path = "%s/graphql_client" }
''' % (self._pkg(i), REPO))
            wanted = set()
            for cid in by_shard[i]:
                fn = "case_%s.rs" % cid
                wanted.add(fn)
                src = STUB if cid in self.stubbed else self.cases[cid].source()
                write_if_changed(os.path.join(d, "src", fn), src)
            for fn in os.listdir(os.path.join(d, "src")):
                if fn.startswith("case_") and fn not in wanted:
                    os.remove(os.path.join(d, "src", fn))
            mods = "\n".join("mod case_%s;" % c for c in by_shard[i])
            arms = "\n".join('        "%s" => case_%s::call(&module, &what, arg),' % (c, c) for c in by_shard[i])
            write_if_changed(os.path.join(d, "src", "main.rs"), MAIN_TEMPLATE % {"mods": mods, "arms": arms})
        write_if_changed(os.path.join(self.dir, "Cargo.toml"), '''[workspace]
resolver = "2"
members = [%s]
[profile.dev]
opt-level = 0
debug = 0
incremental = false
codegen-units = 16
[profile.dev.build-override]
opt-level = 3
''' % ", ".join('"%s"' % m for m in members))
        lock = os.path.join(self.dir, "Cargo.lock")
        if not os.path.exists(lock):
            shutil.copy(os.path.join(REPO, "Cargo.lock"), lock)
        os.makedirs(os.path.join(self.dir, ".cargo"), exist_ok=True)
        write_if_changed(os.path.join(self.dir, ".cargo", "config.toml"), "[net]\noffline = true\n")

    def _cargo(self):
        env = base_env()
        env["CARGO_TARGET_DIR"] = FARM_TARGET
        env["RUSTFLAGS"] = "--cfg graphql_client_verif"
        p = subprocess.run(["cargo", "build", "--offline", "--message-format=json", "--keep-going"],
                           cwd=self.dir, env=env, stdout=subprocess.PIPE, stderr=subprocess.PIPE, text=True)
        errors = {}
        other_errors = []
        for line in p.stdout.splitlines():
            if not line.startswith("{"):
                continue
            try:
                m = json.loads(line)
            except Exception:
                continue
            if m.get("reason") != "compiler-message":
                continue
            msg = m["message"]
            if msg.get("level") != "error":
                continue
            code = (msg.get("code") or {}).get("code")
            files = set()

            def walk(spans):
                for sp in spans or []:
                    mm = re.search(r"case_([0-9a-f]{16})\.rs$", sp.get("file_name", ""))
                    if mm:
                        files.add(mm.group(1))
                    elif sp.get("file_name", "") in self.file_alias:
                        files.add(self.file_alias[sp["file_name"]])  # a file a case mounts with #[path]
                    exp = sp.get("expansion")
                    if exp and exp.get("span"):
                        walk([exp["span"]])
            # Attribute by the primary spans only: notes ("similar names exist in ...") may point into
            # other cases' files.
            walk([sp for sp in (msg.get("spans") or []) if sp.get("is_primary")])
            if not files:
                walk(msg.get("spans"))
            if not files:
                for ch in msg.get("children", []):
                    walk(ch.get("spans"))
            if not files:
                if "aborting due to" in msg.get("message", "") or "could not compile" in msg.get("message", ""):
                    continue
                other_errors.append((code, msg.get("message", "")[:300], (msg.get("rendered") or "")[:600]))
            for f in files:
                errors.setdefault(f, []).append({"code": code, "message": msg.get("message", "")[:400]})
        return p.returncode, errors, other_errors, p.stderr

    def build(self, max_rounds=4):
        """Compile everything; cases that do not compile are recorded and stubbed."""
        t0 = time.time()
        # Never trust build products made from another state of /repo (patch / restore cycles): when the tree
        # the farm was last built from differs, every shard crate is marked dirty.
        from common import repo_fingerprint
        state = repo_fingerprint()
        stamp = os.path.join(self.dir, ".repo_state")
        try:
            with open(stamp) as f:
                force = f.read() != state
        except FileNotFoundError:
            force = False
        self._force_rebuild = force
        self._state_stamp = (stamp, state)
        # keep crates small (rustc's memory and wall time grow with the number of modules per crate)
        while len(self.cases) / self.nshards > 120 and self.nshards < 128:
            self.nshards *= 2
        self._write()
        if self._force_rebuild:
            now = time.time()
            for i in range(self.nshards):
                for fn in ("main.rs", "lib.rs"):
                    pth = os.path.join(self.dir, self._pkg(i), "src", fn)
                    if os.path.exists(pth):
                        os.utime(pth, (now, now))
        for rnd in range(max_rounds):
            self.rounds = rnd + 1
            rc, errors, other, stderr = self._cargo()
            if rc == 0:
                break
            if not errors:
                raise Machinery("farm %s: cargo failed without attributable errors:\n%s\n%s"
                                % (self.name, other[:5], stderr[-3000:]))
            for cid, errs in errors.items():
                if cid in self.cases:
                    self.cases[cid].compiles = False
                    self.cases[cid].errors = errs
                    self.stubbed.add(cid)
            self._write()
        else:
            raise Machinery("farm %s: still failing after %d rounds" % (self.name, max_rounds))
        for c in self.cases.values():
            if c.compiles is None:
                c.compiles = True
        os.makedirs(self.dir, exist_ok=True)
        with open(self._state_stamp[0], "w") as f:
            f.write(self._state_stamp[1])
        self.build_s = time.time() - t0
        log(f"[farm {self.name}] {len(self.cases)} cases, {len(self.stubbed)} do not compile, "
            f"{self.rounds} round(s), {self.build_s:.1f}s")

    def confirm(self, pairs):
        """Re-execute (request, response) pairs that are about to be reported; an observation that does not
        reproduce is a machinery problem, never a verdict."""
        pairs = [(q, r) for q, r in pairs if q is not None]
        if not pairs:
            return
        again = self.run([q for q, _ in pairs])
        for (q, r), r2 in zip(pairs, again):
            if (r or {}).get("ok") != (r2 or {}).get("ok") or (r or {}).get("out") != (r2 or {}).get("out"):
                raise Machinery("farm %s: observation not reproducible for %s: first %r, then %r" % (self.name, json.dumps(q)[:300], r, r2))

    def run(self, requests):
        """requests: list of dicts {case, module, what, arg}. Returns responses in order."""
        by_shard = {}
        for i, r in enumerate(requests):
            by_shard.setdefault(self.shard_of(r["case"]), []).append(i)
        out = [None] * len(requests)

        def run_shard(item):
            shard, idxs = item
            exe = os.path.join(FARM_TARGET, "debug", self._pkg(shard))
            data = "".join(json.dumps(requests[i]) + "\n" for i in idxs)
            p = subprocess.run([exe], input=data, stdout=subprocess.PIPE, stderr=subprocess.PIPE, text=True,
                               env=base_env())
            lines = p.stdout.splitlines()
            if len(lines) != len(idxs):
                # a crash inside the shard: find out which request by bisection-free replay
                done = len(lines)
                for k, i in enumerate(idxs):
                    if k < done:
                        out[i] = json.loads(lines[k])
                    elif k == done:
                        out[i] = {"crash": True, "returncode": p.returncode, "stderr": p.stderr[-500:]}
                    else:
                        out[i] = None
                rest = [i for k, i in enumerate(idxs) if k > done]
                return (shard, rest)
            for k, i in enumerate(idxs):
                out[i] = json.loads(lines[k])
            return None

        pending = list(by_shard.items())
        guard = 0
        while pending:
            res = parallel_map(run_shard, pending)
            pending = [r for r in res if r and r[1]]
            guard += 1
            if guard > 200:
                raise Machinery("farm run: too many shard crashes")
        return out


class DeriveFarm(Farm):
    """Consumer crates whose *only* dependency is graphql_client; every case is a file with a real
    `#[derive(GraphQLQuery)]`; `cargo check` is the observation (no run)."""

    def __init__(self, name, nshards=NCPU):
        super().__init__(name, nshards)
        self.files = {}  # relative path under each shard's gql/ -> text

    def add_file(self, text, ext):
        rel = sha(text)[:20] + "." + ext
        self.files[rel] = text
        return "gql/" + rel

    def _write(self):
        os.makedirs(self.dir, exist_ok=True)
        members = []
        by_shard = {i: [] for i in range(self.nshards)}
        for cid in sorted(self.cases):
            by_shard[self.shard_of(cid)].append(cid)
        for i in range(self.nshards):
            d = os.path.join(self.dir, self._pkg(i))
            os.makedirs(os.path.join(d, "src"), exist_ok=True)
            os.makedirs(os.path.join(d, "gql"), exist_ok=True)
            members.append(self._pkg(i))
            write_if_changed(os.path.join(d, "Cargo.toml"), '''[package]
name = "%s"
version = "0.0.0"
edition = "2021"
publish = false
[dependencies]
graphql_client = { path = "%s/graphql_client" }
''' % (self._pkg(i), REPO))
            for rel, text in self.files.items():
                p = os.path.join(d, "gql", rel)
                if not os.path.exists(p):
                    with open(p, "w", encoding="utf-8", newline="") as f:
                        f.write(text)
            wanted = set()
            for cid in by_shard[i]:
                fn = "case_%s.rs" % cid
                wanted.add(fn)
                src = "#![allow(warnings)]\n" if cid in self.stubbed else self.cases[cid].tokens
                write_if_changed(os.path.join(d, "src", fn), src)
            for fn in os.listdir(os.path.join(d, "src")):
                if fn.startswith("case_") and fn not in wanted:
                    os.remove(os.path.join(d, "src", fn))
            mods = "\n".join("pub mod case_%s;" % c for c in by_shard[i])
            write_if_changed(os.path.join(d, "src", "lib.rs"), "pub mod scalars { pub type Date = String; pub type date_time = String; pub type DateTime = String; }\n" + mods + "\n")
        write_if_changed(os.path.join(self.dir, "Cargo.toml"), '''[workspace]
resolver = "2"
members = [%s]
[profile.dev]
opt-level = 0
debug = 0
incremental = false
[profile.dev.build-override]
opt-level = 3
''' % ", ".join('"%s"' % m for m in members))
        lock = os.path.join(self.dir, "Cargo.lock")
        if not os.path.exists(lock):
            shutil.copy(os.path.join(REPO, "Cargo.lock"), lock)
        os.makedirs(os.path.join(self.dir, ".cargo"), exist_ok=True)
        write_if_changed(os.path.join(self.dir, ".cargo", "config.toml"), "[net]\noffline = true\n")

    def _cargo(self):
        env = base_env()
        env["CARGO_TARGET_DIR"] = FARM_TARGET
        env["RUSTFLAGS"] = "--cfg graphql_client_verif"
        p = subprocess.run(["cargo", "check", "--offline", "--message-format=json", "--keep-going"],
                           cwd=self.dir, env=env, stdout=subprocess.PIPE, stderr=subprocess.PIPE, text=True)
        return self._parse(p)


def _parse_cargo(p):
    errors = {}
    other_errors = []
    warnings = {}
    for line in p.stdout.splitlines():
        if not line.startswith("{"):
            continue
        try:
            m = json.loads(line)
        except Exception:
            continue
        if m.get("reason") != "compiler-message":
            continue
        msg = m["message"]
        level = msg.get("level")
        if level not in ("error", "warning"):
            continue
        code = (msg.get("code") or {}).get("code")
        files = set()

        def walk(spans):
            for sp in spans or []:
                mm = re.search(r"case_([0-9a-f]{16})\.rs$", sp.get("file_name", ""))
                if mm:
                    files.add(mm.group(1))
                exp = sp.get("expansion")
                if exp and exp.get("span"):
                    walk([exp["span"]])
        walk([sp for sp in (msg.get("spans") or []) if sp.get("is_primary")])
        if not files:
            walk(msg.get("spans"))
        if not files:
            for ch in msg.get("children", []):
                walk(ch.get("spans"))
        if level == "warning":
            for f in files:
                warnings.setdefault(f, []).append({"code": code, "message": msg.get("message", "")[:300]})
            continue
        if not files:
            if "aborting due to" in msg.get("message", "") or "could not compile" in msg.get("message", ""):
                continue
            other_errors.append((code, msg.get("message", "")[:300], (msg.get("rendered") or "")[:600]))
        for f in files:
            errors.setdefault(f, []).append({"code": code, "message": msg.get("message", "")[:400]})
    return p.returncode, errors, other_errors, p.stderr, warnings


def _derive_parse(self, p):
    rc, errors, other, stderr, warnings = _parse_cargo(p)
    self.warnings = warnings
    return rc, errors, other, stderr


DeriveFarm._parse = _derive_parse
