"""Helpers around the generator worker."""
from common import scratch_file, run_cases

DEFAULT_OPTS = {"mode": "cli", "response_derives": "Serialize", "variables_derives": "Deserialize"}


def gen_request(schema_text, query_text, options=None, ext="graphql", **flags):
    req = {"op": "gen", "schema_path": scratch_file(schema_text, ext), "query_text": query_text,
           "options": dict(DEFAULT_OPTS if options is None else options)}
    req.update(flags)
    return req


def generate(reqs, **kw):
    return run_cases(reqs, **kw)


def snake(name):
    """Module name the library derives from an operation name (heck's snake_case for the simple
    identifiers used by the checks: lower-case, split at lower->Upper boundaries)."""
    out = []
    for i, ch in enumerate(name):
        if ch.isupper() and i > 0 and (name[i - 1].islower() or name[i - 1].isdigit() or
                                        (i + 1 < len(name) and name[i + 1].islower() and name[i - 1].isupper())):
            out.append("_")
        out.append(ch.lower())
    return "".join(out)
