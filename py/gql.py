"""Reference model of the GraphQL type system, documents, validation and execution.

Deliberately boring and independent of the crate under test: no parsing of the crate's data, no
shared code. Schemas and operations are *constructed* here and rendered to text (SDL, introspection
JSON, query documents), so no GraphQL parser is needed on this side.
"""
import json
from collections import OrderedDict

BUILTIN_SCALARS = ("Int", "Float", "String", "Boolean", "ID")

# ---------------------------------------------------------------------------------------------
# Type expressions:  ('N', name) | ('L', inner) | ('NN', inner)
# ---------------------------------------------------------------------------------------------


def parse_type(s):
    s = s.strip()
    if s.endswith("!"):
        return ("NN", parse_type(s[:-1]))
    if s.startswith("["):
        assert s.endswith("]"), s
        return ("L", parse_type(s[1:-1]))
    return ("N", s)


def type_str(t):
    if t[0] == "NN":
        return type_str(t[1]) + "!"
    if t[0] == "L":
        return "[" + type_str(t[1]) + "]"
    return t[1]


def named(t):
    while t[0] != "N":
        t = t[1]
    return t[1]


def rust_type(t, leaf):
    """The modifier rule of C13: non-null removes one Option, list becomes Vec, at every level."""
    if t[0] == "NN":
        return _rust_nn(t[1], leaf)
    return "Option<" + _rust_nn(t, leaf) + ">"


def _rust_nn(t, leaf):
    if t[0] == "L":
        return "Vec<" + rust_type(t[1], leaf) + ">"
    assert t[0] == "N"
    return leaf


def all_type_exprs(name, max_depth):
    """Every type expression over `name` with list depth <= max_depth (all placements of '!')."""
    out = []

    def rec(depth):
        if depth == 0:
            base = [("N", name)]
        else:
            base = [("L", x) for x in rec(depth - 1)]
        res = []
        for b in base:
            res.append(b)
            res.append(("NN", b))
        return res

    for d in range(max_depth + 1):
        out.extend(rec(d))
    return out


# ---------------------------------------------------------------------------------------------
# Schema
# ---------------------------------------------------------------------------------------------


class FieldDef:
    def __init__(self, name, type_, args=(), dep=None, default=None):
        self.name = name
        self.type = parse_type(type_) if isinstance(type_, str) else type_
        self.args = [(a[0], parse_type(a[1]) if isinstance(a[1], str) else a[1], a[2] if len(a) > 2 else None)
                     for a in args]
        self.dep = dep  # None = current; (reason_or_None,) = deprecated
        self.default = default  # input fields only (text)


class TypeDef:
    def __init__(self, kind, name, fields=(), interfaces=(), members=(), values=(), one_of=False):
        self.kind = kind
        self.name = name
        self.fields = list(fields)
        self.interfaces = list(interfaces)
        self.members = list(members)
        self.values = [(v, None) if isinstance(v, str) else v for v in values]
        self.one_of = one_of

    def field(self, name):
        for f in self.fields:
            if f.name == name:
                return f
        return None


def obj(name, fields, interfaces=()):
    return TypeDef("OBJECT", name, [f if isinstance(f, FieldDef) else FieldDef(*f) for f in fields], interfaces)


def iface(name, fields):
    return TypeDef("INTERFACE", name, [f if isinstance(f, FieldDef) else FieldDef(*f) for f in fields])


def union(name, members):
    return TypeDef("UNION", name, members=members)


def enum(name, values):
    return TypeDef("ENUM", name, values=values)


def scalar(name):
    return TypeDef("SCALAR", name)


def inp(name, fields, one_of=False):
    return TypeDef("INPUT_OBJECT", name, [f if isinstance(f, FieldDef) else FieldDef(*f) for f in fields],
                   one_of=one_of)


def gql_string(s):
    out = ['"']
    for ch in s:
        if ch == '"':
            out.append('\\"')
        elif ch == "\\":
            out.append("\\\\")
        elif ch == "\n":
            out.append("\\n")
        elif ch == "\r":
            out.append("\\r")
        elif ch == "\t":
            out.append("\\t")
        elif ord(ch) < 0x20:
            out.append("\\u%04x" % ord(ch))
        else:
            out.append(ch)
    out.append('"')
    return "".join(out)


class Schema:
    def __init__(self, types, roots=None, explicit=True, extensions=()):
        self.types = OrderedDict((t.name, t) for t in types)
        self.roots = roots or {"query": "Query"}
        self.explicit = explicit
        # extensions: list of (object name, [FieldDef], [interfaces]) rendered as `extend type`
        self.extensions = list(extensions)

    def kind(self, name):
        if name in BUILTIN_SCALARS:
            return "SCALAR"
        t = self.types.get(name)
        return t.kind if t else None

    def get(self, name):
        return self.types.get(name)

    def is_composite(self, name):
        return self.kind(name) in ("OBJECT", "INTERFACE", "UNION")

    def is_abstract(self, name):
        return self.kind(name) in ("INTERFACE", "UNION")

    def folded(self, name):
        """Type definition with its extensions folded in."""
        t = self.types[name]
        ext = [e for e in self.extensions if e[0] == name]
        if not ext:
            return t
        fields = list(t.fields)
        interfaces = list(t.interfaces)
        for _, fs, ifs in ext:
            fields += fs
            interfaces += ifs
        return TypeDef(t.kind, t.name, fields, interfaces)

    def possible_types(self, name):
        k = self.kind(name)
        if k == "OBJECT":
            return [name]
        if k == "INTERFACE":
            return [t.name for t in self.types.values()
                    if t.kind == "OBJECT" and name in self.folded(t.name).interfaces]
        if k == "UNION":
            return list(self.types[name].members)
        return []

    def field_def(self, parent, fname):
        if self.kind(parent) in ("OBJECT", "INTERFACE"):
            return self.folded(parent).field(fname)
        return None

    # ------------------------------------------------------------------ SDL
    def _sdl_field(self, f, is_input=False):
        s = f.name
        if f.args:
            s += "(" + ", ".join(a[0] + ": " + type_str(a[1]) + (" = " + a[2] if a[2] is not None else "")
                                 for a in f.args) + ")"
        s += ": " + type_str(f.type)
        if is_input and f.default is not None:
            s += " = " + f.default
        if f.dep is not None:
            if f.dep[0] is None:
                s += " @deprecated"
            else:
                s += " @deprecated(reason: " + gql_string(f.dep[0]) + ")"
        return s

    def _sdl_type(self, t):
        if t.kind == "SCALAR":
            return "scalar " + t.name
        if t.kind == "ENUM":
            vals = []
            for v, dep in t.values:
                if dep is None:
                    vals.append(v)
                elif dep[0] is None:
                    vals.append(v + " @deprecated")
                else:
                    vals.append(v + " @deprecated(reason: " + gql_string(dep[0]) + ")")
            return "enum " + t.name + " {\n  " + "\n  ".join(vals) + "\n}"
        if t.kind == "UNION":
            return "union " + t.name + " = " + " | ".join(t.members)
        if t.kind == "INPUT_OBJECT":
            return ("input " + t.name + (" @oneOf" if t.one_of else "") + " {\n  "
                    + "\n  ".join(self._sdl_field(f, True) for f in t.fields) + "\n}")
        head = ("type " if t.kind == "OBJECT" else "interface ") + t.name
        if t.kind == "OBJECT" and t.interfaces:
            head += " implements " + " & ".join(t.interfaces)
        return head + " {\n  " + "\n  ".join(self._sdl_field(f) for f in t.fields) + "\n}"

    def sdl(self, order=None, fold_extensions=False, extensions_first=False):
        names = list(self.types) if order is None else order
        parts = []
        default_roots = (self.roots.get("query") == "Query" and self.roots.get("mutation") in (None, "Mutation")
                         and self.roots.get("subscription") in (None, "Subscription"))
        if self.explicit or not default_roots:
            parts.append("schema {\n" + "".join("  %s: %s\n" % (k, v) for k, v in self.roots.items() if v) + "}")
        tparts, eparts = [], []
        for n in names:
            t = self.folded(n) if fold_extensions else self.types[n]
            tparts.append(self._sdl_type(t))
        if not fold_extensions:
            for name, fs, ifs in self.extensions:
                head = "extend type " + name
                if ifs:
                    head += " implements " + " & ".join(ifs)
                eparts.append(head + (" {\n  " + "\n  ".join(self._sdl_field(f) for f in fs) + "\n}" if fs else ""))
        # (an SDL document may put an extension block before the definition it extends)
        parts += (eparts + tparts) if extensions_first else (tparts + eparts)
        return "\n\n".join(parts) + "\n"

    # ------------------------------------------------------------------ introspection JSON
    def _json_typeref(self, t):
        if t[0] == "NN":
            return {"kind": "NON_NULL", "name": None, "ofType": self._json_typeref(t[1])}
        if t[0] == "L":
            return {"kind": "LIST", "name": None, "ofType": self._json_typeref(t[1])}
        return {"kind": self.kind(t[1]), "name": t[1], "ofType": None}

    def _json_input_value(self, name, t, default):
        return {"name": name, "description": None, "type": self._json_typeref(t), "defaultValue": default}

    def _json_field(self, f):
        return {"name": f.name, "description": None,
                "args": [self._json_input_value(a[0], a[1], a[2]) for a in f.args],
                "type": self._json_typeref(f.type),
                "isDeprecated": f.dep is not None,
                "deprecationReason": (f.dep[0] if f.dep is not None else None)}

    def _json_type(self, t, with_one_of=True):
        d = {"kind": t.kind, "name": t.name, "description": None, "fields": None, "inputFields": None,
             "interfaces": None, "enumValues": None, "possibleTypes": None}
        if t.kind in ("OBJECT", "INTERFACE"):
            d["fields"] = [self._json_field(f) for f in t.fields]
            d["interfaces"] = [{"kind": "INTERFACE", "name": i, "ofType": None} for i in t.interfaces]
            if t.kind == "INTERFACE":
                d["possibleTypes"] = [{"kind": "OBJECT", "name": n, "ofType": None}
                                      for n in self.possible_types(t.name)]
        elif t.kind == "UNION":
            d["possibleTypes"] = [{"kind": "OBJECT", "name": n, "ofType": None} for n in t.members]
        elif t.kind == "ENUM":
            d["enumValues"] = [{"name": v, "description": None, "isDeprecated": dep is not None,
                                "deprecationReason": dep[0] if dep is not None else None}
                               for v, dep in t.values]
        elif t.kind == "INPUT_OBJECT":
            d["inputFields"] = [self._json_input_value(f.name, f.type, f.default) for f in t.fields]
            if with_one_of:
                d["isOneOf"] = bool(t.one_of)
        return d

    def introspection(self, wrapped=False, order=None, builtins=True, meta_types=False, with_one_of=True):
        names = list(self.types) if order is None else order
        types = [self._json_type(self.folded(n), with_one_of) for n in names]
        if builtins:
            for s in BUILTIN_SCALARS:
                types.append({"kind": "SCALAR", "name": s, "description": None, "fields": None,
                              "inputFields": None, "interfaces": None, "enumValues": None,
                              "possibleTypes": None})
        if meta_types:
            types.append({"kind": "OBJECT", "name": "__Schema", "description": None, "fields": [
                {"name": "types", "description": None, "args": [],
                 "type": {"kind": "NON_NULL", "name": None, "ofType": {"kind": "LIST", "name": None, "ofType": {
                     "kind": "NON_NULL", "name": None, "ofType": {"kind": "OBJECT", "name": "__Type", "ofType": None}}}},
                 "isDeprecated": False, "deprecationReason": None}],
                "inputFields": None, "interfaces": [], "enumValues": None, "possibleTypes": None})
            types.append({"kind": "OBJECT", "name": "__Type", "description": None, "fields": [
                {"name": "name", "description": None, "args": [],
                 "type": {"kind": "SCALAR", "name": "String", "ofType": None},
                 "isDeprecated": False, "deprecationReason": None}],
                "inputFields": None, "interfaces": [], "enumValues": None, "possibleTypes": None})
            types.append({"kind": "ENUM", "name": "__TypeKind", "description": None, "fields": None,
                          "inputFields": None, "interfaces": None,
                          "enumValues": [{"name": "SCALAR", "description": None, "isDeprecated": False,
                                          "deprecationReason": None}], "possibleTypes": None})
        sch = {
            "queryType": {"name": self.roots["query"]} if self.roots.get("query") else None,
            "mutationType": {"name": self.roots["mutation"]} if self.roots.get("mutation") else None,
            "subscriptionType": {"name": self.roots["subscription"]} if self.roots.get("subscription") else None,
            "types": types,
            "directives": [],
        }
        doc = {"__schema": sch}
        if wrapped:
            doc = {"data": doc}
        return json.dumps(doc, ensure_ascii=False)


# ---------------------------------------------------------------------------------------------
# Documents
# ---------------------------------------------------------------------------------------------


def _dirs(directives):
    """directives: tuple of (kind, variable) with kind in {"skip", "include"}: `@skip(if: $variable)`."""
    return tuple(tuple(d) for d in directives)


def render_directives(directives):
    """(kind, variable name) or, for a literal condition, (kind, "=true" / "=false")."""
    return "".join(" @%s(if: %s)" % (k, v[1:] if v.startswith("=") else "$" + v) for k, v in directives)


class Field:
    __slots__ = ("name", "alias", "args", "sel", "directives")

    def __init__(self, name, sel=None, alias=None, args=(), directives=()):
        self.name, self.alias, self.args, self.sel = name, alias, tuple(args), (None if sel is None else tuple(sel))
        self.directives = _dirs(directives)

    @property
    def key(self):
        return self.alias or self.name

    def canon(self):
        base = ("F", self.name, self.alias, self.args, None if self.sel is None else tuple(s.canon() for s in self.sel))
        return base + (self.directives,) if self.directives else base


class Inline:
    __slots__ = ("on", "sel", "directives")

    def __init__(self, on, sel, directives=()):
        self.on, self.sel = on, tuple(sel)
        self.directives = _dirs(directives)

    def canon(self):
        base = ("I", self.on, tuple(s.canon() for s in self.sel))
        return base + (self.directives,) if self.directives else base


class Spread:
    __slots__ = ("name", "directives")

    def __init__(self, name, directives=()):
        self.name = name
        self.directives = _dirs(directives)

    def canon(self):
        return ("S", self.name, self.directives) if self.directives else ("S", self.name)


def skipped(node, env):
    """spec 6.3.2: is the node left out under the variable values `env` (name -> bool)?"""
    for kind, var in node.directives:
        val = (var == "=true") if var.startswith("=") else bool(env.get(var))
        if kind == "skip" and val:
            return True
        if kind == "include" and not val:
            return True
    return False


def directive_variables(doc):
    out = []

    def walk(sel):
        for s in sel or ():
            for _, var in s.directives:
                if var not in out and not var.startswith("="):
                    out.append(var)
            if not isinstance(s, Spread):
                walk(s.sel)
    for d in doc.defs:
        walk(d.sel)
    return out


def TN():
    return Field("__typename")


class FragDef:
    def __init__(self, name, on, sel):
        self.name, self.on, self.sel = name, on, tuple(sel)

    def canon(self):
        return ("FD", self.name, self.on, tuple(s.canon() for s in self.sel))


class Op:
    def __init__(self, kind, name, sel, vars=()):
        # vars: (name, type string, default text or None)
        self.kind, self.name, self.sel, self.vars = kind, name, tuple(sel), tuple(vars)

    def canon(self):
        return ("OP", self.kind, self.name, self.vars, tuple(s.canon() for s in self.sel))


class Doc:
    def __init__(self, defs):
        self.defs = list(defs)

    @property
    def ops(self):
        return [d for d in self.defs if isinstance(d, Op)]

    @property
    def frags(self):
        return OrderedDict((d.name, d) for d in self.defs if isinstance(d, FragDef))

    def canon(self):
        return tuple(d.canon() for d in self.defs)


def render_sel(sel, ind=1):
    pad = "  " * ind
    out = []
    for s in sel:
        if isinstance(s, Field):
            line = pad + ((s.alias + ": ") if s.alias else "") + s.name
            if s.args:
                line += "(" + ", ".join("%s: %s" % (a, v) for a, v in s.args) + ")"
            line += render_directives(s.directives)
            if s.sel is not None:
                line += " {\n" + render_sel(s.sel, ind + 1) + pad + "}"
            out.append(line + "\n")
        elif isinstance(s, Inline):
            head = pad + "..." + ((" on " + s.on) if s.on else "") + render_directives(s.directives)
            out.append(head + " {\n" + render_sel(s.sel, ind + 1) + pad + "}\n")
        else:
            out.append(pad + "..." + s.name + render_directives(s.directives) + "\n")
    return "".join(out)


def render_doc(doc):
    parts = []
    for d in doc.defs:
        if isinstance(d, FragDef):
            parts.append("fragment %s on %s {\n%s}\n" % (d.name, d.on, render_sel(d.sel)))
        else:
            head = d.kind if d.kind else ""
            if d.name:
                head += " " + d.name
            if d.vars:
                head += "(" + ", ".join("$%s: %s%s" % (v[0], v[1], (" = " + v[2]) if len(v) > 2 and v[2] is not None else "")
                                        for v in d.vars) + ")"
            parts.append((head + " " if head else "") + "{\n%s}\n" % render_sel(d.sel))
    return "\n".join(parts)


# ---------------------------------------------------------------------------------------------
# Reference validator (the rule catalogue of C06 plus what makes a document well-formed)
# ---------------------------------------------------------------------------------------------


def root_type(schema, op):
    kind = op.kind or "query"
    return schema.roots.get(kind)


def validate(schema, doc):
    """Returns a list of (rule, where) problems; empty list <=> valid for this library."""
    errs = []
    frags = doc.frags
    names = [d.name for d in doc.defs if isinstance(d, FragDef)]
    if len(set(names)) != len(names):
        errs.append(("duplicate_fragment", ""))
    opnames = [o.name for o in doc.ops]
    if len(set(opnames)) != len(opnames):
        errs.append(("duplicate_operation", ""))

    def typename_reachable(parent, sel, seen):
        for s in sel:
            if isinstance(s, Field) and s.name == "__typename":
                return True
            if isinstance(s, Spread) and s.name in frags and s.name not in seen:
                f = frags[s.name]
                if f.on == parent and typename_reachable(parent, f.sel, seen | {s.name}):
                    return True
        return False

    def check_sel(parent, sel, where):
        if schema.is_abstract(parent) and not typename_reachable(parent, sel, frozenset()):
            errs.append(("missing_typename", where))
        for s in sel:
            if isinstance(s, Field):
                if s.name == "__typename":
                    if s.sel is not None:
                        errs.append(("subselection_on_leaf", where + "/__typename"))
                    continue
                fd = schema.field_def(parent, s.name)
                if fd is None:
                    errs.append(("unknown_field", where + "/" + s.name))
                    continue
                tn = named(fd.type)
                if schema.is_composite(tn):
                    if s.sel is None or len(s.sel) == 0:
                        errs.append(("missing_subselection", where + "/" + s.key))
                    else:
                        check_sel(tn, s.sel, where + "/" + s.key)
                elif schema.kind(tn) is None:
                    errs.append(("schema_unknown_type", tn))
                else:
                    if s.sel is not None:
                        errs.append(("subselection_on_leaf", where + "/" + s.key))
            elif isinstance(s, Inline):
                if s.on is None:
                    errs.append(("inline_without_condition", where))
                    continue
                if not schema.is_composite(s.on):
                    errs.append(("unknown_type_condition", where + "/...on " + str(s.on)))
                    continue
                if not set(schema.possible_types(s.on)) & set(schema.possible_types(parent)):
                    errs.append(("impossible_condition", where + "/...on " + s.on))
                # an inline fragment opens a selection on its own type; the library's __typename
                # requirement is only stated for field selections and fragment definitions
                check_sel_inline(s.on, s.sel, where + "/...on " + s.on)
            else:
                f = frags.get(s.name)
                if f is None:
                    errs.append(("undefined_fragment", where + "/..." + s.name))
                    continue
                if schema.is_composite(f.on) and not (
                        set(schema.possible_types(f.on)) & set(schema.possible_types(parent))):
                    errs.append(("impossible_condition", where + "/..." + s.name))

    def check_sel_inline(parent, sel, where):
        # same as check_sel without the typename requirement at this level
        saved = len(errs)
        check_sel(parent, sel, where)
        errs[saved:] = [e for e in errs[saved:] if not (e[0] == "missing_typename" and e[1] == where)]

    for d in doc.defs:
        if isinstance(d, FragDef):
            if not schema.is_composite(d.on):
                errs.append(("unknown_type_condition", "fragment " + d.name))
                continue
            check_sel(d.on, d.sel, "fragment " + d.name)
        else:
            if not d.name or not d.kind:
                errs.append(("anonymous_operation", ""))
                continue
            rt = root_type(schema, d)
            if rt is None or schema.kind(rt) != "OBJECT":
                errs.append(("missing_root_type", d.kind))
                continue
            if d.kind == "subscription" and len(d.sel) != 1:
                errs.append(("subscription_root_fields", d.name))
            check_sel(rt, d.sel, d.name)
    return errs


# ---------------------------------------------------------------------------------------------
# Reference executor: CollectFields of the spec, and everything derived from it
# ---------------------------------------------------------------------------------------------


def collect_fields(schema, frags, runtime_type, sel, visited=None, out=None, parents=None, static_type=None, env=None):
    """spec 6.3.2 CollectFields: ordered map response key -> list of Field nodes. When `parents` (a dict) is
    given, id(node) -> the type whose selection set contains the node is recorded in it: that type, not the
    runtime type, determines the Rust type the generator gives the field. With `env` (variable values) the
    `@skip` / `@include` directives are evaluated; without it every node counts."""
    if out is None:
        out = OrderedDict()
    if visited is None:
        visited = set()
    for s in sel:
        if env is not None and s.directives and skipped(s, env):
            continue
        if isinstance(s, Field):
            out.setdefault(s.key, []).append(s)
            if parents is not None:
                parents[id(s)] = static_type
        elif isinstance(s, Spread):
            if s.name in visited:
                continue
            visited.add(s.name)
            f = frags.get(s.name)
            if f is None:
                continue
            if runtime_type in schema.possible_types(f.on):
                collect_fields(schema, frags, runtime_type, f.sel, visited, out, parents, f.on, env)
        else:
            if s.on is None or runtime_type in schema.possible_types(s.on):
                collect_fields(schema, frags, runtime_type, s.sel, visited, out, parents, s.on or static_type, env)
    return out


def merged_subselection(nodes):
    sel = []
    for n in nodes:
        if n.sel:
            sel.extend(n.sel)
    return sel


SCALAR_VALUES = {
    "Int": [1, 0, 2147483647, -2147483648],
    "Float": [1.5, 0, -1.5, 1e300, 3],
    "String": ["s", "", "é\n\""],
    "Boolean": [True, False],
    "ID": ["x", "", "007", 0, -1, -9223372036854775808, 9223372036854775807],
}
CUSTOM_SCALAR_VALUES = ["2020-01-01", ""]


class Chooser:
    """Replays a prefix of choices, then answers 0; records every choice point."""

    def __init__(self, prefix=()):
        self.prefix = tuple(prefix)
        self.choices = []
        self.arity = []
        self.labels = []

    def __call__(self, n, label=""):
        i = len(self.choices)
        c = self.prefix[i] if i < len(self.prefix) else 0
        if c >= n:
            raise AssertionError("divergence while replaying a choice prefix: %r at %d (%s)" % (self.prefix, i, label))
        self.choices.append(c)
        self.arity.append(n)
        self.labels.append(label)
        return c


def explore_choices(build, max_dev=None, cap=None):
    """Deviation-bounded exhaustive enumeration (the explorer of the guidance): every choice
    vector with at most `max_dev` non-default choices, each exactly once. Yields
    (choices, labels, result). Stops after `cap` results when given (the caller must then
    report the cap)."""
    stack = [()]
    count = 0
    while stack:
        prefix = stack.pop()
        ch = Chooser(prefix)
        result = build(ch)
        count += 1
        yield tuple(ch.choices), list(ch.labels), result
        if cap is not None and count >= cap:
            return
        devs = sum(1 for c in prefix if c != 0)
        if max_dev is not None and devs + 1 > max_dev:
            continue
        nxt = []
        for i in range(len(prefix), len(ch.choices)):
            for alt in range(1, ch.arity[i]):
                nxt.append(tuple(ch.choices[:i]) + (alt,))
        stack.extend(reversed(nxt))


def gql_named(t):
    return named(t)


class Executor:
    """Everything the checks need to know about what a conforming payload of an operation is."""

    def __init__(self, schema, doc, list_lengths=(1, 0, 2), scalar_values=None, max_depth=5):
        self.max_depth = max_depth  # object nesting at which recursive selections are forced to end
        self.schema = schema
        self.doc = doc
        self.frags = doc.frags
        self.list_lengths = list_lengths
        self.scalar_values = scalar_values or SCALAR_VALUES
        self.env = {}

    def leaf_values(self, tn):
        k = self.schema.kind(tn)
        if tn in self.scalar_values:
            return self.scalar_values[tn]
        if k == "ENUM":
            return [v for v, _ in self.schema.types[tn].values]
        return CUSTOM_SCALAR_VALUES

    def build_payload(self, op, ch):
        rt = root_type(self.schema, op)
        # the values of the Boolean variables the document's @skip / @include directives read
        self.env = {v: ch(2, "$" + v) == 1 for v in directive_variables(self.doc)}
        return self._object(rt, op.sel, ch, op.name, rt, 0)

    def _object(self, runtime_type, sel, ch, path, static_type, depth):
        fields = collect_fields(self.schema, self.frags, runtime_type, sel, env=self.env)
        out = OrderedDict()
        for key, nodes in fields.items():
            if nodes[0].name == "__typename":
                out[key] = runtime_type
                continue
            fd = self.schema.field_def(runtime_type, nodes[0].name)
            out[key] = self._value(fd.type, merged_subselection(nodes), ch, path + "/" + key, depth)
        return out

    def _value(self, t, sel, ch, path, depth):
        if t[0] == "NN":
            return self._nonnull(t[1], sel, ch, path, depth)
        if depth >= self.max_depth and self.schema.is_composite(gql_named(t)):
            return None  # recursive selection: a real server ends it here
        if ch(2, path + "?") == 1:
            return None
        return self._nonnull(t, sel, ch, path, depth)

    def _nonnull(self, t, sel, ch, path, depth):
        if t[0] == "L":
            if depth >= self.max_depth and self.schema.is_composite(gql_named(t)):
                return []
            n = self.list_lengths[ch(len(self.list_lengths), path + "#")]
            return [self._value(t[1], sel, ch, "%s[%d]" % (path, i), depth) for i in range(n)]
        tn = t[1]
        if self.schema.is_composite(tn):
            pts = self.schema.possible_types(tn)
            rt = pts[ch(len(pts), path + "@")] if len(pts) > 1 else pts[0]
            return self._object(rt, sel, ch, path, tn, depth + 1)
        vals = self.leaf_values(tn)
        return vals[ch(len(vals), path + "=")]

    def payloads(self, op, full_cap=256, dev=2, dev_cap=4000):
        """All conforming payload vectors: the full product when it has <= full_cap vectors,
        otherwise every vector with <= dev deviations from the default one. Returns
        (list of (choices, labels, payload), bound description)."""
        full = []
        for item in explore_choices(lambda ch: self.build_payload(op, ch), None, full_cap + 1):
            full.append(item)
        if len(full) <= full_cap:
            return full, {"mode": "full_product", "vectors": len(full)}
        for d in (dev, 1):
            res = list(explore_choices(lambda ch: self.build_payload(op, ch), d, dev_cap + 1))
            if len(res) <= dev_cap:
                return res, {"mode": "deviation_bound", "bound": d, "vectors": len(res)}
        return res[:dev_cap], {"mode": "deviation_bound_capped", "bound": 1, "vectors": dev_cap, "capped": True}

    # ---------------------------------------------------------------- comparison (normal form)
    def compare(self, op, payload, output):
        """Differences between a conforming payload and the re-serialised output, modulo the
        normal form of the property (key order, null vs absent at nullable positions, integer IDs
        as strings, __typename on concrete-object selections). Returns list of (path, what)."""
        diffs = []
        rt = root_type(self.schema, op)
        self._cmp_obj(payload, output, rt, op.sel, op.name, diffs)
        return diffs

    def _cmp_obj(self, P, O, static_type, sel, path, diffs):
        if not isinstance(O, dict):
            diffs.append((path, "expected object, got %r" % (O,)))
            return
        rt = static_type if self.schema.kind(static_type) == "OBJECT" else P.get("__typename")
        fields = collect_fields(self.schema, self.frags, rt, sel)
        for key, nodes in fields.items():
            pv = P.get(key)
            if nodes[0].name == "__typename":
                if self.schema.kind(static_type) == "OBJECT":
                    continue
                if O.get(key) != pv:
                    diffs.append((path + "/" + key, "typename %r became %r" % (pv, O.get(key, "<absent>"))))
                continue
            fd = self.schema.field_def(rt, nodes[0].name)
            self._cmp_val(pv, O.get(key, _ABSENT), fd.type, merged_subselection(nodes), path + "/" + key, diffs)
        for k in O:
            if k not in fields:
                if k == "__typename":
                    # the tag of a generated enum; harmless only if it names the runtime type
                    if O[k] != rt:
                        diffs.append((path + "/__typename", "tag %r for runtime type %r" % (O[k], rt)))
                    continue
                diffs.append((path + "/" + k, "extra key in output"))

    def _cmp_val(self, pv, ov, t, sel, path, diffs):
        if pv is None:
            if ov is not None and ov is not _ABSENT:
                diffs.append((path, "null became %r" % (ov,)))
            return
        if ov is _ABSENT or ov is None:
            diffs.append((path, "value %s lost (%s)" % (json.dumps(pv)[:60], "absent" if ov is _ABSENT else "null")))
            return
        if t[0] == "NN":
            t = t[1]
        if t[0] == "L":
            if not isinstance(ov, list) or len(ov) != len(pv):
                diffs.append((path, "list %s became %s" % (json.dumps(pv)[:60], json.dumps(ov)[:60])))
                return
            for i, (a, b) in enumerate(zip(pv, ov)):
                self._cmp_val(a, b, t[1], sel, "%s[%d]" % (path, i), diffs)
            return
        tn = t[1]
        if self.schema.is_composite(tn):
            self._cmp_obj(pv, ov, tn, sel, path, diffs)
            return
        if tn == "ID":
            exp = str(pv) if isinstance(pv, int) and not isinstance(pv, bool) else pv
            if ov != exp or not isinstance(ov, str):
                diffs.append((path, "ID %r became %r" % (pv, ov)))
            return
        if isinstance(pv, bool) or isinstance(ov, bool):
            if pv is not ov:
                diffs.append((path, "%r became %r" % (pv, ov)))
            return
        if isinstance(pv, (int, float)) and isinstance(ov, (int, float)):
            if pv != ov:
                diffs.append((path, "%r became %r" % (pv, ov)))
            return
        if pv != ov:
            diffs.append((path, "%r became %r" % (pv, ov)))


class _Absent:
    def __repr__(self):
        return "<absent>"


_ABSENT = _Absent()


def loads_keep_duplicates(text):
    """Parse JSON; objects whose text repeats a key are merged deeply, and every conflict (two
    different non-object values, or null vs a value, under one key) is recorded."""
    conflicts = []

    def merge(a, b, path):
        if isinstance(a, dict) and isinstance(b, dict):
            out = OrderedDict(a)
            for k, v in b.items():
                if k in out:
                    out[k] = merge(out[k], v, path + "/" + k)
                else:
                    out[k] = v
            return out
        if a == b and type(a) is type(b):
            return a
        conflicts.append((path, a, b))
        return a if a is not None else b

    def hook(pairs):
        out = OrderedDict()
        for k, v in pairs:
            if k in out:
                out[k] = merge(out[k], v, k)
            else:
                out[k] = v
        return out

    val = json.loads(text, object_pairs_hook=hook)
    return val, conflicts


# ---------------------------------------------------------------------------------------------
# Single-point edits of a document (every selection set, at any depth, inside fragments too)
# ---------------------------------------------------------------------------------------------


def single_point_edits(schema, doc, editor):
    """editor(parent_type, sel, where) -> iterable of (description, new selection tuple).
    Yields (description, where, new Doc) with exactly one selection set replaced."""

    def rec(parent, sel, where):
        for desc, ns in editor(parent, sel, where):
            yield desc, where, tuple(ns)
        for i, s in enumerate(sel):
            if isinstance(s, Field) and s.sel and s.name != "__typename":
                fd = schema.field_def(parent, s.name)
                if fd is None:
                    continue
                for desc, w, ns in rec(named(fd.type), s.sel, where + "/" + s.key):
                    yield desc, w, sel[:i] + (Field(s.name, ns, s.alias, s.args),) + sel[i + 1:]
            elif isinstance(s, Inline) and s.on:
                for desc, w, ns in rec(s.on, s.sel, where + "/...on " + s.on):
                    yield desc, w, sel[:i] + (Inline(s.on, ns),) + sel[i + 1:]

    for di, d in enumerate(doc.defs):
        if isinstance(d, FragDef):
            parent, where = d.on, "fragment " + d.name
        else:
            parent, where = root_type(schema, d), d.name or "<anonymous>"
        if parent is None or not schema.is_composite(parent):
            continue
        for desc, w, ns in rec(parent, d.sel, where):
            nd = FragDef(d.name, d.on, ns) if isinstance(d, FragDef) else Op(d.kind, d.name, ns, d.vars)
            yield desc, w, Doc(doc.defs[:di] + [nd] + doc.defs[di + 1:])
