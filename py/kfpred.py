"""Known-finding signature predicates: functions of the *reference model* evaluated on the failing
input and, where the failure has one, the failing position (never on error texts)."""
import re

import gql
from gql import Field, Inline, Spread


def selection_sets(schema, doc, op=None):
    """Yield (parent type, selection list, response path) for every selection set reachable from
    the operation(s), following spreads; the response path is the one the payload uses
    (inline fragments and spreads do not add segments)."""
    out = []
    frags = doc.frags

    def walk(parent, sel, path, seen):
        out.append((parent, sel, path))
        for s in sel:
            if isinstance(s, Field):
                if s.sel and s.name != "__typename":
                    fd = schema.field_def(parent, s.name)
                    if fd is not None:
                        walk(gql.named(fd.type), s.sel, path + "/" + s.key, seen)
            elif isinstance(s, Inline):
                if s.on:
                    walk(s.on, s.sel, path, seen)
            else:
                f = frags.get(s.name)
                if f is not None and seen.count(s.name) < 2:
                    walk(f.on, f.sel, path, seen + (s.name,))

    for d in ([op] if op is not None else doc.ops):
        rt = gql.root_type(schema, d)
        if rt:
            walk(rt, d.sel, d.name or "", ())
    return out


def _keys_of(schema, frags, s, seen=()):
    """Response keys a selection item can contribute (for any runtime type)."""
    if isinstance(s, Field):
        return {s.key}
    if isinstance(s, Spread):
        f = frags.get(s.name)
        if f is None or s.name in seen:
            return set()
        keys = set()
        for x in f.sel:
            keys |= _keys_of(schema, frags, x, seen + (s.name,))
        return keys
    keys = set()
    for x in s.sel:
        keys |= _keys_of(schema, frags, x, seen)
    return keys


def c01_sigs(schema, doc, op=None):
    """Map predicate name -> set of response paths (selection-set path + "/" + response key) of exactly
    the keys the finding explains. A deserialisation error has no position, so for those every
    predicate that holds anywhere in the operation counts (see sigs_at)."""
    sigs = {}
    frags = doc.frags

    def flag(name, path, keys):
        sigs.setdefault(name, set()).update((path + "/" + k) if k else path for k in keys)

    for parent, sel, path in selection_sets(schema, doc, op):
        kind = schema.kind(parent)
        flat, direct = [], set()
        for s in sel:
            if isinstance(s, Field):
                if s.name != "__typename":
                    direct.add(s.key)
            else:
                flat.append(_keys_of(schema, frags, s) - {"__typename"})
        # (serde hands a shared key to the first flattened member only; the others then fail or lose *all*
        # their keys, so every key of the members involved is explained by this finding)
        for i, ks in enumerate(flat):
            if ks & direct:
                flag("sibling_flattened_selections_share_response_key", path, ks | (ks & direct))
            for ks2 in flat[i + 1:]:
                if ks & ks2:
                    flag("sibling_flattened_selections_share_response_key", path, ks | ks2)
        for s in sel:
            if not isinstance(s, Field) and s.directives:
                flag("fragment_with_skip_or_include", path, _keys_of(schema, frags, s))
            if isinstance(s, Field) and s.directives:
                flag("field_with_skip_or_include", path, {s.key})
        for s in sel:
            if isinstance(s, Spread) and s.name in frags:
                if kind == "OBJECT" and frags[s.name].on != parent:
                    flag("abstract_fragment_spread_on_object_parent", path, _keys_of(schema, frags, s))
            if isinstance(s, Inline):
                if kind == "OBJECT":
                    flag("inline_fragment_on_object_parent", path, _keys_of(schema, frags, s))
                elif s.on == parent:
                    flag("inline_fragment_on_same_abstract_type", path, _keys_of(schema, frags, s))
        ons = [s.on for s in sel if isinstance(s, Inline)]
        if len(ons) != len(set(ons)):
            flag("two_inline_fragments_same_type", path, {""})
        if kind == "OBJECT" and sel:
            rendered = [s for s in sel if (isinstance(s, Field) and s.name != "__typename") or
                        (isinstance(s, Spread) and s.name in frags and frags[s.name].on == parent)]
            if not rendered:
                flag("object_selection_without_rendered_fields", path, {""})
    return sigs


def duplicate_response_keys(doc):
    """Is some response key selected twice by plain fields of ONE selection set - directly, or through several inline
    fragments with the same type condition, whose fields end up in one variant struct (legal: the selections merge)?"""
    def dup(keys):
        return len(keys) != len(set(keys))

    def walk(sel):
        if dup([x.key for x in sel if isinstance(x, Field)]):
            return True
        by_type = {}
        for x in sel:
            if isinstance(x, Inline):
                by_type.setdefault(x.on, []).extend(y.key for y in x.sel if isinstance(y, Field))
        if any(dup(ks) for ks in by_type.values()):
            return True
        return any(walk(x.sel) for x in sel if not isinstance(x, Spread) and x.sel)
    return any(walk(d.sel) for d in doc.defs)


def strip_indices(path):
    return re.sub(r"\[\d+\]", "", path)


def sigs_at(sigs, diff_paths=None):
    """Names of the predicates that explain a failure. Without positions (a deserialisation error
    has none) every predicate that holds anywhere in the operation counts; with positions a
    predicate counts only if *every* differing path lies in or below a selection set it flags."""
    if not diff_paths:
        return set(sigs)
    out = set()
    for name, wheres in sigs.items():
        ok = True
        for dp in diff_paths:
            dp = strip_indices(dp)
            if dp.startswith("dup/"):
                continue
            if not any(dp == w or dp.startswith(w + "/") for w in wheres):
                ok = False
                break
        if ok:
            out.add(name)
    return out


def sig_groups(sigs, diff_paths):
    """One set of explaining predicates per differing path (a violation is a known finding only if
    every one of its paths is explained by some listed finding)."""
    groups = []
    for dp in diff_paths or []:
        d = strip_indices(dp)
        if d.startswith("dup/"):
            continue
        groups.append({name for name, wheres in sigs.items() if any(d == w or d.startswith(w + "/") for w in wheres)})
    return groups
