import argparse
import importlib
import os
import sys
import traceback

sys.path.insert(0, os.path.dirname(os.path.abspath(__file__)))
import common  # noqa: E402


def main():
    ap = argparse.ArgumentParser()
    sub = ap.add_subparsers(dest="cmd", required=True)
    sub.add_parser("setup")
    c = sub.add_parser("check")
    c.add_argument("id")
    c.add_argument("--tier", default=os.environ.get("VERIF_TIER", "quick"), choices=["quick", "thorough"])
    r = sub.add_parser("replay")
    r.add_argument("path")
    args = ap.parse_args()
    os.chdir(common.ROOT)
    try:
        if args.cmd == "setup":
            common.build_workers()
            common.build_cli()
            import farm
            f = farm.Farm("warm", nshards=1)
            f.add(farm.Case("pub struct Warm;", [], resp=False, vars_=False))
            f.build()
            print("setup ok")
            return 0
        if args.cmd == "check":
            mod = importlib.import_module("checks." + args.id.lower())
            return mod.run(args.tier)
        if args.cmd == "replay":
            import json
            with open(args.path) as f:
                rec = json.load(f)
            mod = importlib.import_module("checks." + rec["property"].lower())
            os.environ["VERIF_REPLAY_DIGEST"] = os.path.basename(args.path).split(".")[0]
            return mod.run(rec.get("tier", "quick"))
    except common.Machinery as e:
        print("MACHINERY-ERROR:", e, file=sys.stderr)
        return common.EXIT_MACHINERY
    except Exception:
        traceback.print_exc()
        return common.EXIT_MACHINERY


if __name__ == "__main__":
    sys.exit(main())
