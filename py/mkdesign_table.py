"""Regenerates the table of DESIGN.md 10.2 from the evidence files (run after a full quick pass on the clean tree)."""
import json
import os
import re

ROOT = os.path.dirname(os.path.dirname(os.path.abspath(__file__)))
MAIN = [("states", "states"), ("transitions", "transitions"), ("traces_validated_against_impl", "validated on impl"),
        ("evaluations", "evaluations"), ("distinct_nontrivial", "distinct non-trivial")]
SKIP = {"rule", "samples", "exhaustive", "distinct_outcomes", "repo_state", "families", "per_module", "vectors_per_operation",
        "solo_outcomes", "sampling_supplement_16_free_threads", "caps"}


def fmt(v):
    return "{:,}".format(v) if isinstance(v, int) and not isinstance(v, bool) else str(v)


def main():
    rows = []
    for i in range(1, 21):
        pid = "C%02d" % i
        e = json.load(open(os.path.join(ROOT, "evidence", pid + ".json")))
        cov = e.get("coverage", {})
        main = ", ".join("%s %s" % (label, fmt(cov[k])) for k, label in MAIN if k in cov)
        rest = "; ".join("%s %s" % (k, fmt(v)) for k, v in cov.items()
                         if k not in SKIP and k not in dict(MAIN) and isinstance(v, (int, float, bool)))
        level = e.get("level") or e.get("verification_level") or ""
        wall = e.get("wall_s") or e.get("wall") or cov.get("wall_s")
        rows.append("| %s | %s | %s | %s | %s |" % (pid, level, main, rest, ("%d s" % round(wall)) if wall else ""))
    path = os.path.join(ROOT, "DESIGN.md")
    d = open(path).read()
    m = re.search(r"(\| ID \| level \| measured counts[^\n]*\n\|---\|---\|---\|---\|---\|\n)((?:\| C\d\d \|[^\n]*\n)+)", d)
    d = d[:m.start(2)] + "\n".join(rows) + "\n" + d[m.end(2):]
    open(path, "w").write(d)
    print("\n".join(rows[:3]))


if __name__ == "__main__":
    main()
