"""Writes /verif/MANIFEST.json from the table below (run after adding a check)."""
import json
import os

ROOT = os.path.dirname(os.path.dirname(os.path.abspath(__file__)))

CHECKS = {}


def check(pid, category, text, note, technique, design):
    CHECKS[pid] = dict(category=category, text=text, note=note, technique=technique, design=design)


check("C01", "exploration",
      "Bounded exhaustive exploration of (operation, payload) pairs: every operation of the edit space (ordered item "
      "sequences at 12 focus hosts over a schema that contains each construct the generator distinguishes) is really "
      "generated, compiled with rustc and run with serde_json; every conforming payload vector (full product, or all "
      "vectors within deviation bound 2 of the default) must deserialise and re-serialise to the same normal form. "
      "Exhaustive within the stated bounds, silent about operations and payload values outside them.",
      "Trusted: the Python reference executor (CollectFields) and normal form; rustc and serde as the semantics of the "
      "generated code. Known findings are matched by reference-model predicates at the failing position.",
      "bounded exhaustive input-space exploration of the real generator + compiled generated code against a reference executor",
      "DESIGN.md 4 C01, 3.2-3.4, appendix A")

NOT_APPLICABLE = []


def main():
    checks = []
    for pid in sorted(CHECKS):
        c = CHECKS[pid]
        checks.append({
            "property_id": pid,
            "quick_cmd": "./vf check %s --tier quick" % pid,
            "thorough_cmd": "./vf check %s --tier thorough" % pid,
            "evidence_file": "evidence/%s.json" % pid,
            "replay_cmd_template": "./vf replay {path}",
            "engine": "vf",
            "level_claimed": {"category": c["category"], "text": c["text"], "design_ref": c["design"]},
            "level_note": c["note"],
            "technique": c["technique"],
        })
    man = {
        "version": 1,
        "setup_cmd": "./vf setup",
        "hooks": {
            "guard": "--cfg graphql_client_verif",
            "enable": "RUSTFLAGS='--cfg graphql_client_verif' (set by py/common.py for the worker, CLI and farm builds)",
            "baseline_off_cmd": "cd /repo && cargo test --workspace --no-fail-fast --offline",
            "source_commits": json.load(open(os.path.join(ROOT, "hooks.json")))["source_commits"],
            "add_only": True,
        },
        "engines": [
            {"name": "vf", "path": "vf", "serves_properties": sorted(CHECKS),
             "kind_free_text": "Python orchestrator (py/) + Rust worker (rs/vw) linking /repo's crates by path + farm of "
                               "generated consumer crates; explicit enumeration engines (full product, deviation-bounded "
                               "DFS, BFS over histories, preemption-bounded schedule DFS)"},
        ],
        "checks": checks,
        "not_applicable": NOT_APPLICABLE,
        "notes": "See DESIGN.md. Exit codes: 0 held (KNOWN-FINDING lines possible), 1 VIOLATION, 2 machinery failure.",
    }
    with open(os.path.join(ROOT, "MANIFEST.json"), "w") as f:
        json.dump(man, f, indent=1)
    print("MANIFEST.json:", len(checks), "checks")


if __name__ == "__main__":
    main()
