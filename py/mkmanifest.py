"""Writes /verif/MANIFEST.json from the table below (run after adding a check)."""
import json
import os

ROOT = os.path.dirname(os.path.dirname(os.path.abspath(__file__)))

CHECKS = {}


def check(pid, category, text, note, technique, design):
    CHECKS[pid] = dict(category=category, text=text, note=note, technique=technique, design=design)


check("C01", "exploration",
      "Bounded exhaustive exploration of (operation, payload) pairs: every operation of the edit space (ordered item "
      "sequences at 12 focus hosts over a schema that contains each construct the generator distinguishes, plus the covering operations of the C07 schema feature lattice, plus a pack of operations whose fields / fragments "
      "carry @skip / @include, evaluated by the reference executor through the Boolean variables they read; single-item operations and the "
      "packs also under a second option set) is really generated, compiled with rustc and run with serde_json; every conforming payload vector (full product, or all "
      "vectors within deviation bound 2 of the default) must deserialise and re-serialise to the same normal form. "
      "Exhaustive within the stated bounds, silent about operations and payload values outside them.",
      "Trusted: the Python reference executor (CollectFields) and normal form; rustc and serde as the semantics of the "
      "generated code. Known findings are matched by reference-model predicates at the failing position.",
      "bounded exhaustive input-space exploration of the real generator + compiled generated code against a reference executor",
      "DESIGN.md 4 C01, 3.2-3.4, appendix A")

check("C06", "exploration",
      "Exhaustive single-point invalidation: every valid operation of the bounded operation space x every applicable "
      "instance of the ten invalidating edits at every selection set (any depth, inside named and inline fragments, on "
      "object / interface / union parents; plus document-level edits and schema variants without a mutation / "
      "subscription root, incl. one whose `schema {}` block omits them while plain types carry the conventional names; a sample of every edit "
      "kind again under three other option sets and against the introspection-JSON form of the schema; fragment-only sub-selections on leaves; invalid selections that a literal "
      "@skip(if: true) / @include(if: false) would hide). The real generator must never return code for a document the reference validator rejects.",
      "Trusted: the reference validator (the ten rules of the property, from the GraphQL spec text). Only edits it "
      "confirms as invalidating are counted.",
      "bounded exhaustive enumeration of invalidating edits x positions against the real validator/generator",
      "DESIGN.md 4 C06")

check("C13", "model_checking",
      "The space is finite and enumerated completely: all 62 type expressions of list depth <= 4 x every kind of named "
      "type x {response field, variable, input field (also with a schema default), @oneOf member, field of an object that narrows "
      "an interface's declaration} (plus variables with a default, response fields that carry @skip / @include, fields below a conditional inline fragment) x {SDL, "
      "introspection JSON, SDL under rust normalization + skip-none}. The model is the "
      "structural modifier rule; the emitted field types are read from the real generator's token stream; the model's "
      "verdict is then validated on compiled code (rustc + serde) by injecting a null at every nesting level.",
      "Trusted: syn's parse of the emitted tokens; rustc/serde for the conformance runs. ID response fields under a list "
      "are compared at token level only (their compile problem is C16's).",
      "explicit-state enumeration of a finite input space against a structural model, with conformance runs on compiled code",
      "DESIGN.md 4 C13")

check("C17", "fault_enumeration",
      "Every input of an adversarial grammar (spread cycles of length 1-6 on every kind of type (incl. fragments whose whole body is one spread, and cycles on the root type of a "
      "query / mutation / subscription), with / without "
      "__typename, direct or through fields, used or unused or entered from outside the cycle, object fragments hopping through an "
      "interface field in three definition orders; input-type cycles; nesting to depth 64; degenerate SDL and "
      "JSON schemas; every byte-prefix and single-token deletion of seed documents and schemas; the structural families also under two other "
      "option sets) is run in an isolated "
      "worker that announces the case before starting it; death by signal, abort or a hang is a violation.",
      "Trusted: the worker's BEGIN/answer protocol; a 10 s wall limit stands for 'loops'. The generator runs on the "
      "worker's main thread (8 MB stack).",
      "exhaustive fault / adversarial-input enumeration against the real generator in isolated processes",
      "DESIGN.md 4 C17")

check("C08", "model_checking",
      "Explicit-state search over the real process (call alphabet: valid pairs, the same file by other spellings and through symlinks, "
      "look-alike paths, cross pairs, missing / unparsable / wrong-extension files, queries that parse but fail validation against "
      "their own and a look-alike schema, derive-mode calls for two operations of one file, other options, and twelve-file histories that exceed any fixed-size cache): BFS over call histories to the fixpoint of reachable cache states "
      "(state = content of both process-wide caches read through hook H1), all histories up to a length bound without "
      "de-duplication, and a preemption-bounded DFS over thread schedules executed by real threads on the real mutex "
      "under a baton scheduler (one fresh process per schedule, failing schedules replayed). Every call's outcome is "
      "compared with the same call made alone in a fresh process.",
      "Every model state is an implementation state (no separate model). Scheduling points: cache-lock acquisitions and "
      "thread start/end. 2-3 threads; larger counts by the serialisation argument of DESIGN.md. Hash-seed nondeterminism "
      "is sampled (3 fresh processes per solo outcome), not controlled.",
      "explicit-state BFS over histories of the real code + preemption-bounded schedule enumeration under a controlled scheduler",
      "DESIGN.md 4 C08, appendix C")

check("C15", "exploration",
      "Deviation-bounded exhaustive enumeration of the GraphQL response grammar (each optional member absent / null / "
      "present, 0-2 errors, paths over names and indices, nested extensions, unknown members) against the real "
      "Response<T> / Error types, T = JSON map and a derive-generated type; full product of Error values; negative "
      "catalogue. Oracle: an independent envelope model (accepted, preserved, round-trips, Display format).",
      "Trusted: the envelope model written from the property text and the GraphQL spec section 7.",
      "bounded exhaustive enumeration of a response grammar against a reference model of the envelope",
      "DESIGN.md 4 C15")

check("C16", "exploration",
      "Full product of the ID value alphabet x both helper functions x four deserialiser paths on the real serde_with "
      "module; every ID type expression of list depth <= 2 (thorough 3) x six placements (plain, alias, spread fragment, variant, "
      "and - with @include - plain and variant), under the default and three other option sets, generated, inspected at token "
      "level (helper on exactly the ID fields), compiled and fed string / integer / null / wrong-kind / absent vectors.",
      "Trusted: rustc and serde as semantics of the generated code. Also run from an SDL that spells out `scalar ID`.",
      "exhaustive enumeration of value alphabet x deserialiser paths, and of type expressions x placements on compiled generated code",
      "DESIGN.md 4 C16")

check("C05", "model_checking",
      "States = distinct query-document texts of a grammar (all orders of all admissible sets of 1-3 operations and 0-2 "
      "fragments; trivia deviations: tab, LF/CRLF/CR, commas, comments incl. one that looks like an operation, BOM, string "
      "escapes, block strings with the character pairs that end raw Rust strings, non-ASCII, trailing newline or not, an operation named like a Rust keyword); transitions = (mode, selected name - incl. a CLI name that matches "
      "nothing: documented fall-back to every operation, each module complete -, normalization, entry point). Model: "
      "QUERY is the source text byte for byte, OPERATION_NAME the unmodified name, modules belong to the selected operation, "
      "derive mode never falls back. Model verdicts are read from the real generator's tokens and validated on compiled "
      "modules (constants and serialised build_query body).",
      "Trusted: syn's unescaping of the emitted string literal (cross-checked by the compiled constants); a small "
      "snake/camel-case model for the identifiers of the alphabet.",
      "explicit-state enumeration of document texts x selections against a model, with conformance runs on compiled code",
      "DESIGN.md 4 C05")

check("C07", "model_checking",
      "States = schemas of a feature lattice (all subsets up to a size bound of 20 schema constructs - incl. type names with one leading "
      "underscore and several extension blocks of one type -, the full set, CORE) plus the "
      "schemas and operations harvested from the input spaces of C01, C10, C12 and C16 (which those checks feed as SDL only); "
      "transitions = comparisons of each rendering (3 SDL extensions, bare / data-wrapped JSON, with / without built-in "
      "scalars and __ types, kind-grouped and reversed type orders, extensions folded, extension blocks before the definitions they extend) with the SDL rendering, for covering "
      "query / mutation / subscription operations and three option sets. Relational oracle: identical token streams (identical "
      "after sorting items for permuted orders).",
      "Trusted: the pack's own SDL / introspection renderers (a wrong renderer shows up as a difference and is triaged).",
      "explicit-state enumeration of a schema feature lattice with a relational (SDL vs JSON) oracle on the real generator",
      "DESIGN.md 4 C07")

check("C12", "model_checking",
      "States = labelled digraphs of input object types (n = 1, 2 complete over 5 edge kinds and @oneOf flags, n = 3 over 3-4 "
      "edge kinds on all 9 ordered pairs, n = 4 rings / chords; the small graphs also under other options, from the JSON form of the "
      "schema and with keyword / camelCase / underscore field names) and 29 fragment recursion patterns (incl. recursion entered through "
      "top-level inline fragments / spreads and spreads next to siblings of every kind). Model = finite-size rule "
      "on the emitted items (by-value containment, cut by Vec and Box). Conformance: a covering subset and its Box-stripped "
      "twins are compiled; rustc's E0072 verdict must agree with the model in both directions; snake_case type names under rust normalization; recursive values round-trip "
      "through Variables with JSON that shows no trace of the Box (with skip_serializing_none: a None member is omitted, boxed or not).",
      "Trusted: rustc's size check as ground truth for the compiled subset; the syn-based edge report.",
      "explicit-state enumeration of type graphs against a finite-size model validated against rustc",
      "DESIGN.md 4 C12")

check("C14", "model_checking",
      "Finite space enumerated completely: 3^4 deprecation assignments x {SDL, JSON, SDL with the fields declared in `extend type`} x 6 "
      "selection styles (direct, aliased, fragment, variant, on the interface, the object's own current copy of a field the interface "
      "deprecates) x 4 strategies (+ a selection of only the deprecated fields, + fields carrying @include, + a second type set, + another option set, + the reason alphabet on every field, + a block-string reason). Model = the three documented rules, evaluated on "
      "the generator's tokens (attribute presence, note == reason byte for byte, omission under deny, nothing else "
      "touched); the deny clause is validated on compiled code with payloads that contain the omitted fields.",
      "Trusted: syn's parse of attributes; rustc/serde for the conformance runs.",
      "exhaustive enumeration of a finite configuration space against the documented rules, with conformance runs on compiled code",
      "DESIGN.md 4 C14")

check("C03", "exploration",
      "On compiled generated code: for every operation of the bounded operation space and of the schema lattice (other-variant off, and on "
      "wherever an abstract position exists; single-item operations also under rust normalization + skip-none; fragments carrying @skip whose fields are present) one conforming payload per runtime-type choice and every single-point corruption of "
      "it (null / missing at non-null, non-list at list, each wrong JSON kind at each scalar, non-object at object, "
      "__typename unknown / deleted / non-string / swapped). Forbidden payloads must be rejected; unknown __typename must be "
      "an error or, with the option on, yield Unknown; a swapped known __typename must select its own variant.",
      "Trusted: reference executor for positions and types; rustc/serde as semantics of generated code. Not demanded: "
      "rejecting extra keys, integers at Float, missing keys at nullable positions, arrays for objects.",
      "bounded exhaustive enumeration of single-point corruptions on compiled generated code",
      "DESIGN.md 4 C03")

check("C04", "exploration",
      "On compiled generated code: variables of every input type expression (10 named types x all modifier placements to "
      "list depth 2, thorough 3), special variable names, x skip_serializing_none x normalization; every assignment within "
      "the deviation bound is deserialised into Variables (expressibility) and serialised via build_query; the output must "
      "equal the reference Variables model (exact key set, schema names, @oneOf single key, None omitted or null). Conversely every "
      "INVALID neighbour of the richest assignments (null / missing key at each non-null position, @oneOf with a null, no or two members) "
      "must be refused by Deserialize - otherwise a Variables value exists that serialises to invalid JSON; and a sample of assignments is "
      "read back in Debug form: a schema enum value must sit in its own variant, not in the catch-all (a round trip cannot tell).",
      "Trusted: the reference Variables model; serde's derive as semantics of the generated types.",
      "bounded exhaustive enumeration of variable assignments on compiled generated code against a reference model",
      "DESIGN.md 4 C04")

check("C09", "exploration",
      "Relational check on compiled code: collision-rich operations (incl. one whose name is not CamelCase) x every wire-neutral option "
      "set (quick: default + all single and pairwise deviations; thorough: the full product of 7 dimensions), repeated under each base "
      "setting of the non-neutral options (skip-none, other-variant, deprecation), plus every single-item operation of C01's space under "
      "the default, one alternative per dimension and - where it compiles - `Default` among the response derives; at token level the two "
      "derive lists (incl. lists without Serialize / Deserialize) may change `#[derive(..)]` and nothing else, and on every operation "
      "visibility / serde path / custom-scalars module / extern enums may change only the one thing each is about; x every payload vector, single-point "
      "corruption and variables assignment; acceptance, re-serialised payload and serialised variables must equal those "
      "under the default options.",
      "Trusted: nothing beyond rustc/serde; the oracle is equality between option sets. Extern enums are consumer-supplied "
      "with the behaviour the README prescribes.",
      "metamorphic enumeration over option sets on compiled generated code",
      "DESIGN.md 4 C09")

check("C10", "exploration",
      "On compiled generated code: enum definitions over a naming alphabet (case styles, all keywords, Other-lookalikes; "
      "singles, pairs, mixed sets) x normalization x three positions (response field, variable, input field) x a string "
      "alphabet (schema values, near-misses, empty, blank, non-ASCII, long) and non-string values, with two sibling enums in every module. Every string must "
      "deserialise and serialise back to itself; schema values get distinct non-catch-all variants and never the variant named after "
      "another value (value sets include pairs whose string order differs from their identifier order); a subset again under other derives, "
      "skip-none, other-variant and from the JSON form of the schema; lists of the enum, a defaulted enum input field, and deprecated enum "
      "values under all three strategies.",
      "Trusted: Debug output of the generated enum to tell variants apart.",
      "bounded exhaustive enumeration of enum definitions x strings on compiled generated code",
      "DESIGN.md 4 C10")

check("C11", "exploration",
      "Finite space enumerated completely: 54 keywords (strict, reserved, weak; editions 2015-2024), 14 case styles, 10 "
      "controls x 10 name positions (incl. ID-typed fields, aliases of optional IDs, an alias of the field named like the alias's own Rust "
      "field, a recursive input field, an object-typed list field), enum values additionally checked to land in their own variant, schema-borne names also from introspection JSON and input-side names also under rust normalization, "
      "plus every keyword in other case styles at the positions that snake_case it; one generated module per (name, position), compiled and run; the wire key / string must "
      "be exactly the GraphQL name.",
      "Trusted: rustc (edition 2021) and serde.",
      "exhaustive enumeration of names x positions on compiled generated code",
      "DESIGN.md 4 C11")

check("C02", "exploration",
      "rustc is the observer. lib form: every operation of the bounded operation space + feature operations under every "
      "combination of deprecation strategy, other-variant, skip-none and normalization + targeted families (variable "
      "defaults, multi-operation documents, same type name by two paths, list of ID; the shared schema carries keyword-named, camelCase, "
      "recursive, defaulted and conditional (@skip / @include) members in combination); derive form: real "
      "#[derive(GraphQLQuery)] in crates whose only dependency is graphql_client; cli form: files written by the real "
      "binary mounted as modules. Generation must succeed, the output must parse, rustc must report no error for the case.",
      "Trusted: rustc. The supported subset is defined by the case generator (reference-valid documents, names distinct "
      "after case conversion, README-provided scalar aliases). Compile errors are attributed to cases by primary span.",
      "bounded exhaustive exploration of programs x options x delivery forms with the compiler as oracle",
      "DESIGN.md 4 C02")

check("C19", "fault_enumeration",
      "Every setting of 15 dimensions (12 flags, a pre-existing longer destination file, the schema file form .graphql / .graphqls / .gql / "
      ".json, the query file's bytes LF / CRLF / comments+tabs, absolute / working-directory-relative paths, a non-CamelCase third operation) of the real `graphql-client generate` binary within the deviation bound of the "
      "default invocation (quick 3, thorough 4), two query file names, output placement, formatting; the written file must "
      "be the header plus exactly the library's token stream for the options the flag table prescribes, at "
      "<out or query dir>/<stem>.rs, with nothing else in the tree changed. Failure clause: instances of every invalidating "
      "edit of C06, unparsable / missing files, wrong extension, missing output directory, with and without a pre-existing "
      "output file: non-zero exit and no file touched.",
      "Trusted: the flag -> option table written from the property text and --help; rustfmt (formatted output compared "
      "after re-tokenisation modulo `use` ordering).",
      "exhaustive configuration / fault enumeration against the real binary with the library as reference",
      "DESIGN.md 4 C19")

check("C20", "fault_enumeration",
      "Real `graphql-client introspect-schema` against a scripted loopback endpoint: all flag combinations and every "
      "header string of the alphabet for the request model (one POST, exact JSON body, headers, bearer token; invalid "
      "header strings refused before any connection; header values with commas, semicolons, quotes and further colons; --no-ssl against "
      "plain http changes nothing); 26 server behaviours (incl. bodies that only begin with a JSON value, chunked and whitespace-padded replies, a misleading charset parameter, invalid UTF-8) x {stdout, new file, existing file}; connection "
      "closed after k bytes for every k of a content-length reply. Success => served JSON, and the written file generates "
      "the same code as the schema's SDL; failure => non-zero exit, existing output byte-identical.",
      "Trusted: the mock server's log of what it received. No TLS endpoint. Header names that are not HTTP tokens cannot be carried by any client and are not judged.",
      "exhaustive fault / environment enumeration against the real binary with a scripted mock endpoint",
      "DESIGN.md 4 C20, appendix D")

check("C18", "model_checking",
      "Model = flag -> option table. States = attribute token streams enumerated completely within the stated alphabet "
      "(every subset of the optional keys x orders x 4 string-literal styles x separators / trailing comma; every permutation "
      "of small subsets; every value of every key's domain alone and in pairs - incl. values and directory names that contain the words of "
      "flags and of other keys, and module paths with a leading `::`; seven struct visibilities incl. pub(in path); surrounding attributes; struct visibilities; "
      "manifest-relative directories), compiled INSIDE graphql_query_derive through hook H2 so that the crate's real "
      "option-building functions are exercised; each is compared with the table through the token stream the real generator "
      "emits on an option-revealing fixture. Conformance: real derive expansions in graphql_client-only crates judged by "
      "what compiles and what warns.",
      "Trusted: the table (from the README / property text). In-crate runs use proc_macro2's fallback token streams; the "
      "conformance cases cover the compiler-driven path.",
      "explicit-state enumeration of attribute token streams against a flag->option model, with conformance runs of the real macro",
      "DESIGN.md 4 C18, 5 (hook H2)")

# alphabets added after the ninth round of seeded changes (appended to the level text of the check)
ROUND9 = {
    "C01": "One schema field under different response keys in different selection sets of one operation body is part of the item alphabets.",
    "C04": "A @oneOf input with a single member is one of the named types.",
    "C05": "Documents in which a fragment has the same name as one of the operations, in every order.",
    "C06": "A fragment of the document spread once more where its type condition can never apply (validity is per spread).",
    "C07": "Deprecation reasons whose whitespace matters (runs of blanks, line breaks, a tab, blanks at both ends) and an empty reason.",
    "C08": "The controlled scheduler is fair (after 64 consecutive points of one thread the baton goes to another, logged as a yield, deterministic) and has a horizon; the search of a thread program ends at its first counterexample.",
    "C09": "At every enum leaf every string that differs from a schema value only by letter case, or is its Rust-style spelling.",
    "C11": "Acronym-style names (userID, iOSVersion, isHTML5, HTTPServer).",
    "C12": "Multi-operation documents in which an operation with a non-recursive input precedes the one with the recursive input.",
    "C13": "A self-recursive input object as ninth kind of named type (its outer Box is ignored).",
    "C14": "Reasons with significant whitespace and an empty reason.",
    "C16": "Deprecated ID fields under allow / warn / deny; decoy fields named id / ID that are not of type ID.",
    "C17": "Variable default literals (eight shapes, complete or not) on every cyclic input type.",
    "C18": "Every history of up to 3 (thorough 4) settings of CARGO_MANIFEST_DIR in one process.",
    "C19": "Query or schema path given as a symbolic link to a differently named file in another directory.",
    "C20": "Every status class once more with a body that is a valid schema (3xx without Location, 304, unusual 4xx / 5xx, 202 / 203 / 299).",
}

NOT_APPLICABLE = []


def main():
    checks = []
    for pid in sorted(CHECKS):
        c = CHECKS[pid]
        checks.append({
            "property_id": pid,
            "quick_cmd": "./vf check %s --tier quick" % pid,
            "thorough_cmd": "./vf check %s --tier thorough" % pid,
            "evidence_file": "evidence/%s.json" % pid,
            "replay_cmd_template": "./vf replay {path}",
            "engine": "vf",
            "level_claimed": {"category": c["category"], "text": c["text"] + (" Added after round 9: " + ROUND9[pid] if pid in ROUND9 else ""), "design_ref": c["design"]},
            "level_note": c["note"],
            "technique": c["technique"],
        })
    man = {
        "version": 1,
        "setup_cmd": "./vf setup",
        "hooks": {
            "guard": "--cfg graphql_client_verif",
            "enable": "RUSTFLAGS='--cfg graphql_client_verif' (set by py/common.py for the worker, CLI and farm builds)",
            "baseline_off_cmd": "cd /repo && cargo test --workspace --no-fail-fast --offline",
            "source_commits": json.load(open(os.path.join(ROOT, "hooks.json")))["source_commits"],
            "add_only": True,
        },
        "engines": [
            {"name": "vf", "path": "vf", "serves_properties": sorted(CHECKS),
             "kind_free_text": "Python orchestrator (py/) + Rust worker (rs/vw) linking /repo's crates by path + farm of "
                               "generated consumer crates; explicit enumeration engines (full product, deviation-bounded "
                               "DFS, BFS over histories, preemption-bounded schedule DFS)"},
        ],
        "checks": checks,
        "not_applicable": NOT_APPLICABLE,
        "notes": "See DESIGN.md. Exit codes: 0 held (KNOWN-FINDING lines possible), 1 VIOLATION, 2 machinery failure.",
    }
    with open(os.path.join(ROOT, "MANIFEST.json"), "w") as f:
        json.dump(man, f, indent=1)
    print("MANIFEST.json:", len(checks), "checks")


if __name__ == "__main__":
    main()
