"""Run every seeded change against its property's check (and optional extra checks). Usage:
   python3 py/seedall.py [--only C01-a,C03-a] [--extra]   (writes seeded/RESULTS.json)"""
import argparse
import json
import os
import subprocess
import sys

ROOT = os.path.dirname(os.path.dirname(os.path.abspath(__file__)))
EXTRA = {"C15-b": [], "C16-b": ["C07", "C01"], "C17-b": ["C06"], "C18-b": [], "C19-b": [], "C20-b": [],
         "C08-b": [], "C09-b": ["C16"], "C10-b": ["C09"], "C11-b": ["C01"], "C12-b": ["C02"], "C13-b": ["C03"], "C14-b": ["C07"],
         "C01-b": ["C16", "C03"], "C02-b": ["C12"], "C03-b": ["C01", "C13"], "C04-b": ["C11"], "C05-b": ["C19"], "C06-b": [], "C07-b": ["C13"],
         "C03-a": ["C13"], "C13-a": ["C07"], "C07-a": ["C13"], "C02-a": ["C09"], "C05-a": ["C19"], "C12-a": ["C17"], "C17-a": ["C12"],
         "C16-a": ["C01"], "C09-a": ["C01", "C03"], "C06-a": ["C19"], "C14-a": ["C01"], "C01-a": ["C03", "C09"], "C10-a": ["C04", "C09"],
         "C11-a": ["C04", "C02"],
         "C01-d": ["C02", "C07"], "C02-d": ["C06"], "C03-d": ["C16", "C01"], "C04-d": ["C11"], "C05-d": ["C19"], "C06-d": ["C19"],
         "C09-d": ["C05"], "C11-d": ["C01"], "C12-d": ["C02"], "C13-d": ["C07", "C04"]}


def main():
    ap = argparse.ArgumentParser()
    ap.add_argument("--only", default=None)
    ap.add_argument("--extra", action="store_true")
    a = ap.parse_args()
    seeds = sorted(d for d in os.listdir(os.path.join(ROOT, "seeded")) if os.path.isdir(os.path.join(ROOT, "seeded", d)))
    if a.only:
        seeds = [s for s in seeds if s in a.only.split(",")]
    res_path = os.path.join(ROOT, "seeded", "RESULTS.json")
    results = json.load(open(res_path)) if os.path.exists(res_path) else {}
    for s in seeds:
        prop = s.split("-")[0]
        checks = [prop] + (EXTRA.get(s, []) if a.extra else [])
        print("=====", s, checks, flush=True)
        lrp = os.path.join(ROOT, "seeded", s, "last_run.json")
        if os.path.exists(lrp):
            os.remove(lrp)  # never read a verdict of an earlier run
        p = subprocess.run([sys.executable, os.path.join(ROOT, "py", "seedtest.py"), os.path.join(ROOT, "seeded", s), "--checks", ",".join(checks)],
                           cwd=ROOT, stdout=subprocess.PIPE, stderr=subprocess.STDOUT, text=True)
        print(p.stdout[-2500:], flush=True)
        if not os.path.exists(lrp):
            print("!!!!! no verdict for", s, "(patch does not apply or /repo not clean)", flush=True)
            results[s] = {c: {"exit": 2, "lines": ["seedtest produced no result"]} for c in checks}
            json.dump(results, open(res_path, "w"), indent=1)
            continue
        lr = json.load(open(lrp))
        results.setdefault(s, {}).update(lr)
        json.dump(results, open(res_path, "w"), indent=1)
    print("\nSUMMARY")
    for s in sorted(results):
        print(s, {c: ("DETECTED" if r["exit"] == 1 else "missed" if r["exit"] == 0 else "machinery") for c, r in results[s].items()})


if __name__ == "__main__":
    main()
