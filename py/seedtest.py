"""Apply a seeded change to /repo, run checks against it, undo it.  Usage:
   python3 py/seedtest.py seeded/<id> [--checks C01,C03] [--tier quick]
Prints per check: exit code and the first VIOLATION lines. Always restores /repo."""
import argparse
import json
import os
import subprocess
import sys
import time

ROOT = os.path.dirname(os.path.dirname(os.path.abspath(__file__)))


def sh(cmd, **kw):
    return subprocess.run(cmd, shell=True, stdout=subprocess.PIPE, stderr=subprocess.STDOUT, text=True, **kw)


def main():
    ap = argparse.ArgumentParser()
    ap.add_argument("dir")
    ap.add_argument("--checks", default=None)
    ap.add_argument("--tier", default="quick")
    a = ap.parse_args()
    d = os.path.abspath(a.dir)
    meta = json.load(open(os.path.join(d, "meta.json")))
    checks = a.checks.split(",") if a.checks else [meta["property"]]
    st = sh("git -C /repo status --porcelain")
    if st.stdout.strip():
        print("refusing: /repo has local changes:\n" + st.stdout)
        return 2
    ap_ = sh("git -C /repo apply --whitespace=nowarn %s" % os.path.join(d, "patch.diff"))
    if ap_.returncode != 0:
        print("patch does not apply:\n" + ap_.stdout)
        return 2
    results = {}
    try:
        for c in checks:
            t0 = time.time()
            r = sh("./vf check %s --tier %s" % (c, a.tier), cwd=ROOT)
            lines = [l for l in r.stdout.splitlines() if l.startswith("VIOLATION") or l.startswith("MACHINERY") or l.startswith("  kind=")]
            results[c] = {"exit": r.returncode, "wall_s": round(time.time() - t0, 1), "lines": lines[:6]}
            print(c, "exit", r.returncode, "%.0fs" % (time.time() - t0))
            for l in lines[:6]:
                print("   ", l[:260])
            if r.returncode == 2:
                print(r.stdout[-1500:])
    finally:
        sh("git -C /repo apply -R --whitespace=nowarn %s" % os.path.join(d, "patch.diff"))
        sh("git -C /repo checkout -- .")
        left = sh("git -C /repo status --porcelain").stdout.strip()
        if left:
            print("WARNING: /repo not clean after undo:\n" + left)
    json.dump(results, open(os.path.join(d, "last_run.json"), "w"), indent=1)
    return 0


if __name__ == "__main__":
    sys.exit(main())
