"""Schema pack and the bounded operation space (DESIGN.md 3.1, 3.2, appendix A)."""
from gql import (Schema, obj, iface, union, enum, scalar, inp, FieldDef, Field, Inline, Spread, TN, FragDef, Op, Doc)


def core_schema(mutation=True, subscription=True):
    types = [
        iface("Node", [("id", "ID!"), ("label", "String")]),
        iface("Named", [("name", "String!")]),
        obj("User", [("id", "ID!"), ("label", "String"), ("name", "String!"), ("age", "Int"), ("extId", "ID"), ("aliases", "[ID!]"), ("friend", "Node"),
                     ("friends", "[User!]!"), ("tags", "[String]"), ("roles", "[Role!]"), ("dates", "[Date]!"), ("type", "String"), ("ref", "ID"), ("createdAt", "Date"), ("in", "[ID!]"), FieldDef("match", "Int", dep=(None,)), ("pet", "Pet"), ("role", "Role"),
                     ("since", "Date"), ("score", "Float"), ("active", "Boolean!"),
                     FieldDef("legacy", "String", dep=("use label",))], ["Node", "Named"]),
        # Org refines the interface's nullable `label` to non-null (legal covariance)
        obj("Org", [("id", "ID!"), ("label", "String!"), ("name", "String!"), ("members", "[User!]"), ("memberIds", "[ID!]!"), ("return", "Int!"), ("kindOf", "Role!"),
                    ("owner", "User!"), ("kind", "Role!")], ["Node", "Named"]),
        obj("Bot", [("id", "ID!"), ("label", "String"), ("version", "Int!")], ["Node"]),
        obj("Cat", [("name", "String!"), ("lives", "Int")]),
        obj("Dog", [("name", "String!"), ("good", "Boolean!")]),
        union("Pet", ["Cat", "Dog"]),
        union("Thing", ["User", "Org", "Cat"]),
        enum("Role", ["ADMIN", "member", "guest_user"]),
        scalar("Date"),
        # names that are not stable under UpperCamelCase (normalization = rust must not leak to the wire)
        scalar("date_time"),
        enum("sort_order", ["ASC", "desc", "type"]),
        obj("http_error", [("code", "Int!"), ("stamp", "date_time"), ("order", "sort_order")]),
        union("Outcome", ["User", "http_error"]),
        # ... and input fields whose names are Rust keywords (their Rust field is escaped, the key on the wire is not)
        inp("search_input", [("order", "sort_order"), ("term", "String"), ("at", "date_time"), ("type", "String"), ("in", "[Int!]"),
                             ("where", "Range"), ("maxAge", "Int"), ("sort_by", "String"), FieldDef("limit", "Int!", default="10"), FieldDef("modes", "[sort_order!]!", default="[ASC]")]),
        obj("Q", [("me", "User!"), ("node", "Node"), ("nodes", "[Node!]!"), ("named", "Named"), ("thing", "Thing"),
                  ("things", "[Thing]!"), ("pet", "Pet"),
                  FieldDef("user", "User", args=[("id", "ID!")]),
                  FieldDef("search", "[Node!]", args=[("filter", "Filter"), ("first", "Int", "1")]),
                  ("userFriend", "User"), ("version", "String!"), ("count", "Int"),
                  ("grid", "[[Int!]]!"), ("rows", "[[String!]!]"), ("ids", "[ID]!"), ("matrix", "[[Node!]]"),
                  FieldDef("find", "Outcome", args=[("input", "search_input")]), ("outcomes", "[Outcome!]")]),
        inp("Filter", [("text", "String"), ("role", "Role"), ("ids", "[ID!]"), ("and", "Filter"),
                       ("not", "[Filter!]"), ("range", "Range!"), ("pick", "Pick"),
                       ("type", "Filter"), ("notIn", "[Filter!]"), FieldDef("byKind", "Role", default="ADMIN"), ("extID", "ID")]),
        inp("Range", [("from", "Int"), ("to", "Int")]),
        # a @oneOf input with a single member is still "exactly one key, never null"
        inp("Solo", [("only", "Range")], one_of=True),
        inp("Pick", [("byId", "ID"), ("byName", "String"), ("byRange", "Range"), ("by_handle", "String"), ("userID", "ID"), ("type", "Range"), ("inList", "[Int!]"), ("grid", "[[Int]]"), ("rows", "[[String!]!]")], one_of=True),
    ]
    roots = {"query": "Q"}
    if mutation:
        types.append(obj("M", [FieldDef("rename", "User", args=[("id", "ID!"), ("name", "String!")]),
                               ("touch", "Boolean!")]))
        roots["mutation"] = "M"
    if subscription:
        types.append(obj("Sub", [("changed", "Node"), ("userChanged", "User!"), ("tick", "Int!")]))
        roots["subscription"] = "Sub"
    return Schema(types, roots, explicit=True)


# ------------------------------------------------------------------------------- fragment library
def fragment_library():
    F = {}
    F["UserA"] = FragDef("UserA", "User", [Field("id"), Field("name")])
    F["UserB"] = FragDef("UserB", "User", [Field("name"), Field("age")])
    F["NodeF"] = FragDef("NodeF", "Node", [TN(), Field("id")])
    F["OrgF"] = FragDef("OrgF", "Org", [Field("name"), Field("kind")])
    F["CatF"] = FragDef("CatF", "Cat", [Field("name"), Field("lives")])
    F["ThingF"] = FragDef("ThingF", "Thing", [TN(), Inline("Cat", [Field("lives")])])
    F["QF"] = FragDef("QF", "Q", [Field("version")])
    F["UserT"] = FragDef("UserT", "User", [TN(), Field("name")])
    F["UserX"] = FragDef("UserX", "User", [Field("extId"), Field("age"), Field("aliases")])
    F["CatT"] = FragDef("CatT", "Cat", [TN(), Field("lives")])
    # fragments on an abstract type that get `__typename` only through another fragment (chain of three)
    F["CardN"] = FragDef("CardN", "Node", [Spread("NodeF"), Field("label")])
    F["ChainN"] = FragDef("ChainN", "Node", [Spread("CardN")])
    F["UserRec"] = FragDef("UserRec", "User", [Field("id"), Field("friends", [Spread("UserRec")])])
    F["NodeRec"] = FragDef("NodeRec", "Node", [TN(), Field("id"),
                                                 Inline("User", [Field("friend", [Spread("NodeRec")])])])
    return F


def used_fragments(sel_or_defs, lib):
    """Fragments (transitively) spread from the given selections, in library order."""
    used = []

    def walk(sel):
        for s in sel:
            if isinstance(s, Spread):
                if s.name in lib and s.name not in used:
                    used.append(s.name)
                    walk(lib[s.name].sel)
            elif isinstance(s, Field):
                if s.sel:
                    walk(s.sel)
            else:
                walk(s.sel)

    walk(sel_or_defs)
    return [lib[n] for n in lib if n in used]


# ------------------------------------------------------------------------------- item alphabets
def items_user():
    return [
        ("name", Field("name")), ("age", Field("age")), ("id", Field("id")), ("n:name", Field("name", alias="n")),
        ("role", Field("role")), ("tags", Field("tags")), ("since", Field("since")), ("legacy", Field("legacy")),
        ("friend", Field("friend", [TN(), Field("id")])), ("friends", Field("friends", [Field("name")])),
        ("pet", Field("pet", [TN(), Inline("Cat", [Field("lives")])])), ("__typename", TN()),
        ("...UserA", Spread("UserA")), ("...UserB", Spread("UserB")), ("...NodeF", Spread("NodeF")),
        ("on User", Inline("User", [Field("age")])), ("on Node", Inline("Node", [Field("label")])),
        ("...UserRec", Spread("UserRec")), ("extId", Field("extId")), ("...UserX", Spread("UserX")), ("aliases", Field("aliases")),
        ("roles", Field("roles")), ("dates", Field("dates")), ("type", Field("type")), ("ref", Field("ref")),
        # fields the server may leave out
        ("name@skip", Field("name", directives=[("skip", "s")])), ("cn:name@skip", Field("name", alias="cn", directives=[("skip", "s")])), ("id@include", Field("id", directives=[("include", "s")])),
        ("friends@include", Field("friends", [Field("name")], directives=[("include", "s")])), ("role@skip", Field("role", directives=[("skip", "s")])),
        ("createdAt", Field("createdAt")), ("in", Field("in")), ("match", Field("match")), ("c:createdAt", Field("createdAt", alias="c")),
        # one schema field under DIFFERENT response keys in different selection sets of one operation body
        ("friends{fn:name friends{name fid:id}}", Field("friends", [Field("name", alias="fn"), Field("friends", [Field("name"), Field("id", alias="fid")])])),
    ]


def items_node():
    return [
        ("id", Field("id")), ("label", Field("label")), ("l:label", Field("label", alias="l")),
        ("on User{name}", Inline("User", [Field("name")])), ("on User{age}", Inline("User", [Field("age")])),
        ("on Org{name}", Inline("Org", [Field("name")])), ("on Node{label}", Inline("Node", [Field("label")])),
        ("...NodeF", Spread("NodeF")), ("...UserA", Spread("UserA")), ("...UserB", Spread("UserB")),
        ("...OrgF", Spread("OrgF")), ("...NodeRec", Spread("NodeRec")), ("...UserT", Spread("UserT")),
        ("on User{extId}", Inline("User", [Field("extId")])), ("...UserX", Spread("UserX")), ("on Org{label}", Inline("Org", [Field("label")])),
        ("on Org{memberIds}", Inline("Org", [Field("memberIds")])), ("...CardN", Spread("CardN")), ("...ChainN", Spread("ChainN")),
        ("on Org{return}", Inline("Org", [Field("return"), Field("kind")])),
        ("on Org{kindOf}", Inline("Org", [Field("kindOf"), Field("memberIds")])), ("on User{in}", Inline("User", [Field("in"), Field("createdAt"), Field("match")])),
        ("on User{un:name friends{name}}", Inline("User", [Field("name", alias="un"), Field("friends", [Field("name"), Field("label", alias="l2")])])),
    ]


def items_thing():
    return [
        ("on User{name}", Inline("User", [Field("name")])),
        ("on User{age}", Inline("User", [Field("age")])), ("on Cat{name}", Inline("Cat", [Field("name")])),
        ("...UserA", Spread("UserA")), ("...UserB", Spread("UserB")), ("...CatF", Spread("CatF")),
        ("...ThingF", Spread("ThingF")), ("...CatT", Spread("CatT")), ("...UserT", Spread("UserT")),
    ]


def items_root():
    return [
        ("version", Field("version")), ("count", Field("count")), ("v:version", Field("version", alias="v")),
        ("__typename", TN()), ("me", Field("me", [Field("id")])), ("node", Field("node", [TN(), Field("id")])),
        ("user", Field("user", [Field("name")], args=[("id", "$id")])), ("...QF", Spread("QF")),
        ("on Q", Inline("Q", [Field("count")])), ("grid", Field("grid")), ("rows", Field("rows")), ("ids", Field("ids")), ("matrix", Field("matrix", [TN(), Field("id"), Inline("User", [Field("roles")])])),
        ("outcomes", Field("outcomes", [TN(), Inline("http_error", [Field("code"), Field("stamp"), Field("order")]), Inline("User", [Field("name")])])),
    ]


CORE_ITEMS = {  # the reduced alphabets used for k = 3 (and for the quick k = 2 tier)
    "user": ["name", "id", "n:name", "friend", "__typename", "...UserA", "...UserB", "on User", "...NodeF", "tags", "cn:name@skip", "friends"],
    "node": ["id", "l:label", "on User{name}", "on User{age}", "on Org{name}", "...NodeF", "...UserA",
             "...UserB", "...OrgF"],
    "thing": ["on User{name}", "on User{age}", "on Cat{name}", "...UserA", "...UserB", "...CatF",
              "...ThingF"],
    "root": ["version", "count", "v:version", "__typename", "me", "node", "...QF", "on Q"],
}


def _vars_for(items):
    for _, it in items:
        if isinstance(it, Field) and it.args:
            return (("id", "ID!", None),)
    return ()


# Each focus: (name, alphabet key, host builder(list of (label, item)) -> Doc)
def foci():
    lib = fragment_library()

    def mk(opkind, sel, vars_=(), extra_frags=()):
        frs = list(extra_frags)
        names = {f.name for f in frs}
        for f in used_fragments(list(sel) + [x for fr in frs for x in fr.sel], lib):
            if f.name not in names:
                frs.append(f)
                names.add(f.name)
        import gql
        dvars = gql.directive_variables(Doc(frs + [Op(opkind, "Op", sel, ())]))
        vars_ = tuple(vars_) + tuple((v, "Boolean!", None) for v in dvars if v not in [x[0] for x in vars_])
        return Doc(frs + [Op(opkind, "Op", sel, vars_)])

    def sel_of(items):
        return [it for _, it in items]

    F = []
    F.append(("F1q", "root", lambda items: mk("query", sel_of(items), _vars_for(items))))
    F.append(("F2", "user", lambda items: mk("query", [Field("me", sel_of(items))])))
    # abstract foci: `__typename` (required by the library) is part of the host, not of the budget
    F.append(("F3", "node", lambda items: mk("query", [Field("node", [TN()] + sel_of(items))])))
    F.append(("F3z", "node", lambda items: mk("query", [Field("node", sel_of(items) + [TN()])]) if len(items) == 1 else None))
    F.append(("F4", "thing", lambda items: mk("query", [Field("thing", [TN()] + sel_of(items))])))
    F.append(("F5n", "node", lambda items: mk("query", [Field("nodes", [TN()] + sel_of(items))])))
    F.append(("F5t", "thing", lambda items: mk("query", [Field("things", [TN()] + sel_of(items))])))
    F.append(("F5f", "user", lambda items: mk("query", [Field("me", [Field("friends", sel_of(items))])])))
    F.append(("F6", "user", lambda items: mk("query", [Field("node", [TN(), Inline("User", sel_of(items))])])))
    F.append(("F7a", "user", lambda items: mk("query", [Field("me", [Spread("Fx")])],
                                               extra_frags=[FragDef("Fx", "User", sel_of(items))])))
    F.append(("F7b", "user", lambda items: mk("query", [Field("me", [Field("id"), Spread("Fx")])],
                                               extra_frags=[FragDef("Fx", "User", sel_of(items))])))
    F.append(("F8a", "node", lambda items: mk("query", [Field("node", [Spread("Fx")])],
                                               extra_frags=[FragDef("Fx", "Node", [TN()] + sel_of(items))])))
    F.append(("F8b", "node", lambda items: mk("query", [Field("node", [TN(), Spread("Fx")])],
                                               extra_frags=[FragDef("Fx", "Node", [TN()] + sel_of(items))])))
    return F


ALPHABETS = {"user": items_user, "node": items_node, "thing": items_thing, "root": items_root}


def sequences(alpha, k, core_only_from=None, core=None):
    """All ordered sequences of 1..k distinct items; sequences longer than `core_only_from` draw
    from the core alphabet only."""
    out = []

    def rec(prefix, pool):
        if prefix:
            out.append(list(prefix))
        if len(prefix) >= k:
            return
        nxt_pool = pool
        if core_only_from is not None and len(prefix) + 1 >= core_only_from:
            nxt_pool = [x for x in pool if x[0] in core]
            if any(p[0] not in core for p in prefix):
                return
        for it in nxt_pool:
            if any(it[0] == p[0] for p in prefix):
                continue
            rec(prefix + [it], pool)

    rec([], alpha)
    return out


def operation_space(tier):
    """Yields (focus, labels, Doc). quick: singles over the full alphabets + ordered pairs over the
    core alphabets. thorough: ordered pairs over the full alphabets + ordered triples over the core."""
    seen = set()
    for fname, akey, host in foci():
        alpha = ALPHABETS[akey]()
        core = CORE_ITEMS[akey]
        if tier == "quick":
            seqs = sequences(alpha, 2, core_only_from=2, core=core)
        else:
            seqs = sequences(alpha, 3, core_only_from=3, core=core)
        for items in seqs:
            doc = host(items)
            if doc is None:
                continue
            key = doc.canon()
            if key in seen:
                continue
            seen.add(key)
            yield fname, [l for l, _ in items], doc
    # other root kinds (mutation / subscription hosts) with singles
    lib = fragment_library()
    for kind, sels in (("mutation", [[Field("rename", [Field("id"), Field("name")], args=[("id", "$id"), ("name", "$name")])],
                                     [Field("touch")],
                                     [Field("touch"), Field("rename", [Spread("UserA")], args=[("id", "$id"), ("name", "$name")])]]),
                       ("subscription", [[Field("changed", [TN(), Field("id"), Inline("User", [Field("name")])])],
                                         [Field("userChanged", [Field("name"), Field("friend", [TN(), Spread("NodeF")])])],
                                         [Field("tick")]])):
        for sel in sels:
            vars_ = ()
            if any(isinstance(s, Field) and s.args for s in sel):
                vars_ = (("id", "ID!", None), ("name", "String!", None))
            frs = used_fragments(sel, lib)
            doc = Doc(frs + [Op(kind, "Op", sel, vars_)])
            yield "F1" + kind[0], [kind], doc
