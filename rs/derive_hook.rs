// Compiled *inside* graphql_query_derive (hook H2): `include!`d into `mod verif` of its lib.rs.
// Exhaustive enumeration of #[graphql(...)] attribute arrangements; for each one the options the
// real functions build are compared - through the token stream they make the real generator emit on
// an option-revealing fixture - with options built from the flag -> option table below.
use super::*;
use graphql_client_codegen::deprecation::DeprecationStrategy;
use graphql_client_codegen::normalization::Normalization;
use std::fmt::Write as _;

const FIX: &str = "/verif/rs/c18fix";

#[derive(Clone, Debug, PartialEq)]
enum Item {
    Kv(&'static str, String, u8), // key, value, literal style
    Flag(&'static str),
    List(&'static str, Vec<String>),
}

fn lit(v: &str, style: u8) -> String {
    match style {
        0 => format!("{:?}", v),
        1 => {
            // every character as a \u{..} escape
            let mut s = String::from("\"");
            for ch in v.chars() {
                let _ = write!(s, "\\u{{{:x}}}", ch as u32);
            }
            s.push('"');
            s
        }
        2 => format!("r\"{}\"", v),
        _ => format!("r#\"{}\"#", v),
    }
}

fn render(items: &[Item], sep: &str, trailing: bool, before: &str, after: &str, vis: &str) -> String {
    let mut parts = Vec::new();
    for it in items {
        parts.push(match it {
            Item::Kv(k, v, st) => format!("{} = {}", k, lit(v, *st)),
            Item::Flag(k) => k.to_string(),
            Item::List(k, vs) => format!("{}({})", k, vs.iter().map(|v| format!("{:?}", v)).collect::<Vec<_>>().join(", ")),
        });
    }
    format!(
        "{}\n#[graphql({}{})]\n{}\n{} struct Op;",
        before,
        parts.join(sep),
        if trailing { "," } else { "" },
        after,
        vis
    )
}

/// The flag -> option table of the property, applied through the library's public setters only.
fn model_options(items: &[Item], vis: &str, query_path: std::path::PathBuf) -> Result<GraphQLClientCodegenOptions, String> {
    let mut o = GraphQLClientCodegenOptions::new(CodegenMode::Derive);
    o.set_query_file(query_path);
    let mut other = false;
    let mut skip = false;
    for it in items {
        match it {
            Item::Kv("response_derives", v, _) => o.set_response_derives(v.clone()),
            Item::Kv("variables_derives", v, _) => o.set_variables_derives(v.clone()),
            Item::Kv("custom_scalars_module", v, _) => {
                o.set_custom_scalars_module(syn::parse_str(v).map_err(|e| e.to_string())?)
            }
            Item::Kv("fragments_other_variant", v, _) => other = v == "true",
            Item::Kv("deprecated", v, _) => match v.to_lowercase().as_str() {
                "allow" => o.set_deprecation_strategy(DeprecationStrategy::Allow),
                "warn" => o.set_deprecation_strategy(DeprecationStrategy::Warn),
                "deny" => o.set_deprecation_strategy(DeprecationStrategy::Deny),
                _ => {}
            },
            Item::Kv("normalization", v, _) => match v.to_lowercase().as_str() {
                "rust" => o.set_normalization(Normalization::Rust),
                "none" => o.set_normalization(Normalization::None),
                _ => {}
            },
            Item::Flag("skip_serializing_none") => skip = true,
            Item::List("extern_enums", vs) => o.set_extern_enums(vs.clone()),
            _ => {}
        }
    }
    o.set_fragments_other_variant(other);
    o.set_skip_serializing_none(skip);
    let ident = proc_macro2::Ident::new("Op", proc_macro2::Span::call_site());
    o.set_struct_ident(ident);
    o.set_module_visibility(if vis.is_empty() { syn::Visibility::Inherited } else { syn::parse_str(vis).map_err(|e| e.to_string())? });
    o.set_operation_name("Op".to_string());
    o.set_serde_path(syn::parse_quote!(graphql_client::_private::serde));
    Ok(o)
}

fn observe(opts: GraphQLClientCodegenOptions, q: &std::path::Path, s: &std::path::Path) -> String {
    match generate_module_token_stream(q.to_path_buf(), s, opts) {
        Ok(ts) => format!("ok:{}", ts),
        Err(e) => format!("err:{}", e),
    }
}

fn esc(s: &str) -> String {
    let mut o = String::new();
    for ch in s.chars() {
        match ch {
            '"' => o.push_str("\\\""),
            '\\' => o.push_str("\\\\"),
            '\n' => o.push_str("\\n"),
            '\t' => o.push_str("\\t"),
            c if (c as u32) < 0x20 => {
                let _ = write!(o, "\\u{:04x}", c as u32);
            }
            c => o.push(c),
        }
    }
    o
}

fn permutations<T: Clone>(v: &[T]) -> Vec<Vec<T>> {
    if v.len() <= 1 {
        return vec![v.to_vec()];
    }
    let mut out = Vec::new();
    for i in 0..v.len() {
        let mut rest = v.to_vec();
        let x = rest.remove(i);
        for mut p in permutations(&rest) {
            p.insert(0, x.clone());
            out.push(p);
        }
    }
    out
}

struct Ctx {
    out: String,
    cases: usize,
    violations: usize,
    distinct_obs: std::collections::BTreeSet<u64>,
    samples: Vec<String>,
}

fn hash(s: &str) -> u64 {
    let mut h: u64 = 0xcbf29ce484222325;
    for b in s.as_bytes() {
        h ^= *b as u64;
        h = h.wrapping_mul(0x100000001b3);
    }
    h
}

fn run_case(ctx: &mut Ctx, group: &str, opt: &[Item], order: &[usize], sep: &str, trailing: bool, before: &str, after: &str, vis: &str, dir: &str) {
    // `opt` are the optional items; schema_path / query_path are items 0 and 1 of the full list.
    let mut all: Vec<Item> = vec![
        Item::Kv("schema_path", format!("{}schema.graphql", dir), 0),
        Item::Kv("query_path", format!("{}query.graphql", dir), 0),
    ];
    all.extend(opt.iter().cloned());
    let arranged: Vec<Item> = order.iter().map(|i| all[*i].clone()).collect();
    let text = render(&arranged, sep, trailing, before, after, vis);
    ctx.cases += 1;
    if ctx.samples.len() < 12 && ctx.cases % 977 == 1 {
        ctx.samples.push(text.clone());
    }
    let parsed: Result<syn::DeriveInput, _> = syn::parse_str(&text);
    let ast = match parsed {
        Ok(a) => a,
        Err(e) => {
            ctx.violations += 1;
            let _ = writeln!(ctx.out, "{{\"kind\":\"machinery\",\"group\":\"{}\",\"input\":\"{}\",\"detail\":\"{}\"}}", group, esc(&text), esc(&e.to_string()));
            return;
        }
    };
    let want_q = std::path::PathBuf::from(format!("{}/{}query.graphql", FIX, dir));
    let want_s = std::path::PathBuf::from(format!("{}/{}schema.graphql", FIX, dir));
    let (qp, sp) = match build_query_and_schema_path(&ast) {
        Ok(x) => x,
        Err(e) => {
            ctx.violations += 1;
            let _ = writeln!(ctx.out, "{{\"kind\":\"paths_not_found\",\"group\":\"{}\",\"input\":\"{}\",\"detail\":\"{}\"}}", group, esc(&text), esc(&e.to_string()));
            return;
        }
    };
    if qp != want_q || sp != want_s {
        ctx.violations += 1;
        let _ = writeln!(ctx.out, "{{\"kind\":\"paths_not_resolved_against_manifest_dir\",\"group\":\"{}\",\"input\":\"{}\",\"detail\":\"{} {}\"}}",
            group, esc(&text), esc(&qp.display().to_string()), esc(&sp.display().to_string()));
        return;
    }
    let real = build_graphql_client_derive_options(&ast, qp.clone());
    let model = model_options(opt, vis, qp.clone());
    let (a, b) = match (real, model) {
        (Ok(r), Ok(m)) => (observe(r, &qp, &sp), observe(m, &qp, &sp)),
        (Err(e), Err(_)) => (format!("opterr:{}", e), "opterr".to_string()),
        (Ok(_), Err(m)) => ("ok".to_string(), format!("model refuses: {}", m)),
        (Err(e), Ok(_)) => (format!("derive refuses: {}", e), "ok".to_string()),
    };
    ctx.distinct_obs.insert(hash(&a));
    let same = a == b || (a.starts_with("opterr:") && b == "opterr");
    if !same {
        ctx.violations += 1;
        let mut i = 0;
        let (ab, bb) = (a.as_bytes(), b.as_bytes());
        while i < ab.len().min(bb.len()) && ab[i] == bb[i] {
            i += 1;
        }
        let lo = i.saturating_sub(60);
        let _ = writeln!(ctx.out, "{{\"kind\":\"options_differ_from_attribute\",\"group\":\"{}\",\"input\":\"{}\",\"derive\":\"{}\",\"table\":\"{}\"}}",
            group, esc(&text), esc(&String::from_utf8_lossy(&ab[lo..ab.len().min(i + 120)])), esc(&String::from_utf8_lossy(&bb[lo..bb.len().min(i + 120)])));
    }
}

#[test]
fn verif_c18_enumeration() {
    let tier = std::env::var("VERIF_TIER").unwrap_or_else(|_| "quick".into());
    let out_path = std::env::var("VERIF_C18_OUT").expect("VERIF_C18_OUT");
    std::env::set_var("CARGO_MANIFEST_DIR", FIX);
    let mut ctx = Ctx { out: String::new(), cases: 0, violations: 0, distinct_obs: Default::default(), samples: Vec::new() };
    // optional keys with their default (first) values
    let opt_default: Vec<Item> = vec![
        Item::Kv("response_derives", "Debug".into(), 0),
        Item::Kv("variables_derives", "Debug,Clone".into(), 0),
        Item::Kv("custom_scalars_module", "crate::scalars".into(), 0),
        Item::List("extern_enums", vec!["Role".into()]),
        Item::Kv("fragments_other_variant", "true".into(), 0),
        Item::Flag("skip_serializing_none"),
        Item::Kv("deprecated", "deny".into(), 0),
        Item::Kv("normalization", "rust".into(), 0),
    ];
    let n = opt_default.len();
    // ---- level 1: every subset x 4 orders x 4 literal styles x trailing comma x 2 separators
    for mask in 0..(1u32 << n) {
        let subset: Vec<Item> = (0..n).filter(|i| mask & (1 << i) != 0).map(|i| opt_default[i].clone()).collect();
        let len = subset.len() + 2;
        let ident: Vec<usize> = (0..len).collect();
        let rev: Vec<usize> = (0..len).rev().collect();
        let rot: Vec<usize> = (0..len).map(|i| (i + len / 2) % len).collect();
        let last: Vec<usize> = (2..len).chain(0..2).collect();
        for (oi, order) in [ident, rev, rot, last].iter().enumerate() {
            for style in 0..4u8 {
                if tier == "quick" && (oi as u8 + style) % 2 == 1 && mask % 3 != 0 {
                    continue;
                }
                let styled: Vec<Item> = subset.iter().map(|it| match it { Item::Kv(k, v, _) => Item::Kv(k, v.clone(), style), x => x.clone() }).collect();
                for trailing in [false, true] {
                    let sep = if trailing { ",\n    " } else { ", " };
                    run_case(&mut ctx, "subsets", &styled, order, sep, trailing, "#[derive(GraphQLQuery)]", "", "", "");
                }
            }
        }
    }
    // ---- level 2: every permutation of every subset of <= 3 optional keys (plus the two paths)
    let maxk = if tier == "quick" { 2 } else { 3 };
    for mask in 0..(1u32 << n) {
        if mask.count_ones() as usize > maxk {
            continue;
        }
        let subset: Vec<Item> = (0..n).filter(|i| mask & (1 << i) != 0).map(|i| opt_default[i].clone()).collect();
        let idx: Vec<usize> = (0..subset.len() + 2).collect();
        for p in permutations(&idx) {
            run_case(&mut ctx, "permutations", &subset, &p, ", ", false, "", "", "pub", "");
        }
    }
    // ---- level 3: value domains (each value alone, and every pair of values of two different keys)
    let domains: Vec<(&'static str, Vec<&'static str>)> = vec![
        ("response_derives", vec!["Debug", "Debug, Clone", "PartialEq,Eq", "Serialize", "skip_serializing_none, normalization"]),
        ("variables_derives", vec!["Debug", "Clone,Debug", "Default"]),
        // (values that contain the words of flags and of other keys: a value is data, never an option)
        ("custom_scalars_module", vec!["crate::scalars", "scalars", "super::scalars", "crate::skip_serializing_none", "fragments_other_variant::deprecated",
                                            "::serde_json", "::my_crate::scalars", "self::scalars"]),
        // values with a backslash: in a raw literal it is an ordinary character, never an escape
        ("fragments_other_variant", vec!["true", "false", "TRUE", "yes", "", "tru\\x65"]),
        ("deprecated", vec!["allow", "warn", "deny", "DeNy", "ALLOW", "bogus", "", "den\\x79", "al\\u{6c}ow"]),
        ("normalization", vec!["none", "rust", "RUST", "Rust", "bogus", "rus\\x74"]),
    ];
    let mut singles: Vec<Item> = Vec::new();
    for (k, vs) in &domains {
        for v in vs {
            for style in 0..4u8 {
                singles.push(Item::Kv(k, v.to_string(), style));
            }
        }
    }
    for vs in [vec![], vec!["Role".to_string()], vec!["Role".to_string(), "Missing".to_string()], vec!["role".to_string()],
               vec!["skip_serializing_none".to_string(), "fragments_other_variant".to_string()]] {
        singles.push(Item::List("extern_enums", vs));
    }
    singles.push(Item::Flag("skip_serializing_none"));
    for it in &singles {
        run_case(&mut ctx, "values", &[it.clone()], &[0, 1, 2], ", ", true, "", "", "", "");
        run_case(&mut ctx, "values", &[it.clone()], &[2, 1, 0], ", ", false, "", "", "", "");
    }
    for (i, a) in singles.iter().enumerate() {
        for b in singles.iter().skip(i + 1) {
            let (ka, kb) = (key_of(a), key_of(b));
            if ka == kb {
                continue;
            }
            if let (Item::Kv(_, _, sa), Item::Kv(_, _, sb)) = (a, b) {
                if tier == "quick" && (*sa != 0 || *sb != 3) {
                    continue;
                }
            }
            run_case(&mut ctx, "value_pairs", &[a.clone(), b.clone()], &[0, 2, 1, 3], ", ", false, "", "", "", "");
        }
    }
    // ---- level 4: surrounding attributes, struct visibility, manifest-relative paths
    let befores = ["", "#[derive(GraphQLQuery)]", "#[derive(Debug, Clone)]\n#[allow(dead_code, deprecated)]", "#[doc = \"normalization = \\\"rust\\\"\"]\n#[derive(GraphQLQuery)]",
                   "/// deprecated = \"deny\", skip_serializing_none\n#[cfg_attr(test, derive(Debug))]"];
    let afters = ["", "#[allow(dead_code)]", "#[derive(Debug)]\n#[doc(hidden)]", "#[deprecated]"];
    let full: Vec<usize> = (0..n + 2).collect();
    for before in befores {
        for after in afters {
            for vis in ["", "pub", "pub(crate)", "pub(super)", "pub(self)", "pub(in crate::outer)", "pub(in super)"] {
                for dir in ["", "sub/", "sub/../", "sub/deeper/../../", "../c18fix/", "../../rs/c18fix/", "./", "sub/./", "skip_serializing_none/"] {
                    run_case(&mut ctx, "surroundings", &opt_default, &full, ", ", true, before, after, vis, dir);
                    run_case(&mut ctx, "surroundings", &[], &[1, 0], ",", false, before, after, vis, dir);
                    run_case(&mut ctx, "surroundings", &[opt_default[7].clone(), opt_default[5].clone()], &[3, 0, 2, 1], " , ", false, before, after, vis, dir);
                }
            }
        }
    }
    // ---- level 5: histories over the environment. The manifest directory is read at EVERY expansion (one compiler /
    // proc-macro server process expands the derive for several consumer crates): every sequence of up to 3 (thorough: 4)
    // settings of CARGO_MANIFEST_DIR - two real crates, a directory with a blank in its name, unset - and after each step
    // the paths must be the ones of the setting in force, an unset variable an error.
    {
        let settings: Vec<Option<String>> = vec![Some(FIX.to_string()), Some(format!("{}/sub", FIX)), Some("/no such dir/crate b".to_string()), None];
        let ast: syn::DeriveInput = syn::parse_str("#[graphql(schema_path = \"schema.graphql\", query_path = \"query.graphql\")]\nstruct Op;").expect("ast");
        let max_len = if tier == "quick" { 3 } else { 4 };
        let mut seqs: Vec<Vec<usize>> = vec![vec![]];
        let mut frontier: Vec<Vec<usize>> = vec![vec![]];
        for _ in 0..max_len {
            let mut next = Vec::new();
            for sq in &frontier {
                for i in 0..settings.len() {
                    let mut n = sq.clone();
                    n.push(i);
                    next.push(n);
                }
            }
            seqs.extend(next.iter().cloned());
            frontier = next;
        }
        for sq in seqs.iter().filter(|s| !s.is_empty()) {
            ctx.cases += 1;
            for (step, i) in sq.iter().enumerate() {
                match &settings[*i] {
                    Some(d) => std::env::set_var("CARGO_MANIFEST_DIR", d),
                    None => std::env::remove_var("CARGO_MANIFEST_DIR"),
                }
                let got = build_query_and_schema_path(&ast);
                let ok = match (&settings[*i], &got) {
                    (Some(d), Ok((qp, sp))) => *qp == std::path::PathBuf::from(format!("{}/query.graphql", d)) && *sp == std::path::Path::new(d).join("schema.graphql"),
                    (None, Err(_)) => true,
                    _ => false,
                };
                if !ok {
                    ctx.violations += 1;
                    let shown = match &got { Ok((qp, sp)) => format!("{} {}", qp.display(), sp.display()), Err(e) => format!("error: {}", e) };
                    let _ = writeln!(ctx.out, "{{\"kind\":\"paths_not_resolved_against_manifest_dir\",\"group\":\"manifest_dir_history\",\"input\":\"settings {:?} (indices into [fixture, fixture/sub, a directory with a blank, unset]), step {}\",\"detail\":\"{}\"}}",
                        sq, step, esc(&shown));
                    break;
                }
            }
        }
        std::env::set_var("CARGO_MANIFEST_DIR", FIX);
    }
    let summary = format!(
        "{{\"kind\":\"summary\",\"cases\":{},\"violations\":{},\"distinct_observations\":{},\"samples\":[{}]}}\n",
        ctx.cases, ctx.violations, ctx.distinct_obs.len(),
        ctx.samples.iter().map(|s| format!("\"{}\"", esc(s))).collect::<Vec<_>>().join(",")
    );
    ctx.out.push_str(&summary);
    std::fs::write(out_path, ctx.out).expect("write results");
}

fn key_of(i: &Item) -> &'static str {
    match i {
        Item::Kv(k, _, _) => k,
        Item::Flag(k) => k,
        Item::List(k, _) => k,
    }
}
