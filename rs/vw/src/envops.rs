//! Operations on the real `graphql_client` runtime crate (Response / Error envelope, ID helpers).
use graphql_client::{Error, GraphQLQuery, Response};
use serde::{Deserialize, Serialize};
use serde_json::{json, Map, Value};

#[derive(GraphQLQuery)]
#[graphql(
    schema_path = "fixtures/env_schema.graphql",
    query_path = "fixtures/env_query.graphql",
    response_derives = "Serialize,PartialEq,Debug"
)]
pub struct EnvOp;

fn response_report<T>(body: &str) -> Value
where
    T: for<'de> Deserialize<'de> + Serialize + PartialEq,
{
    let parsed: Result<Response<T>, _> = serde_json::from_str(body);
    match parsed {
        Err(e) => json!({"status": "ok", "parse": "err", "msg": e.to_string()}),
        Ok(r) => {
            let ser = serde_json::to_string(&r);
            let (reser, rt_equal) = match &ser {
                Ok(s) => {
                    let back: Result<Response<T>, _> = serde_json::from_str(s);
                    (Value::String(s.clone()), back.map(|b| b == r).unwrap_or(false))
                }
                Err(e) => (json!({"ser_err": e.to_string()}), false),
            };
            let displays: Vec<String> = r
                .errors
                .as_ref()
                .map(|es| es.iter().map(|e| e.to_string()).collect())
                .unwrap_or_default();
            // also through from_value (a different Deserializer implementation)
            let via_value = serde_json::from_str::<Value>(body)
                .ok()
                .map(|v| serde_json::from_value::<Response<T>>(v).map(|b| b == r).unwrap_or(false));
            json!({"status": "ok", "parse": "ok", "reser": reser, "roundtrip_equal": rt_equal,
                   "displays": displays, "via_value_equal": via_value,
                   "data_is_some": r.data.is_some(),
                   "errors_len": r.errors.as_ref().map(|e| e.len()),
                   "ext_is_some": r.extensions.is_some()})
        }
    }
}

fn error_report(body: &str) -> Value {
    let parsed: Result<Error, _> = serde_json::from_str(body);
    match parsed {
        Err(e) => json!({"status": "ok", "parse": "err", "msg": e.to_string()}),
        Ok(r) => {
            let s = serde_json::to_string(&r).unwrap_or_default();
            let back: Result<Error, _> = serde_json::from_str(&s);
            let display = std::panic::catch_unwind(|| r.to_string());
            json!({"status": "ok", "parse": "ok", "reser": s,
                   "roundtrip_equal": back.map(|b| b == r).unwrap_or(false),
                   "display": display.ok()})
        }
    }
}

#[derive(Deserialize, Debug)]
struct ReqId {
    #[serde(deserialize_with = "graphql_client::serde_with::deserialize_id")]
    id: String,
}
#[derive(Deserialize, Debug)]
struct OptId {
    #[serde(deserialize_with = "graphql_client::serde_with::deserialize_option_id")]
    id: Option<String>,
}
#[derive(Deserialize, Debug)]
struct FlatReq {
    #[serde(flatten)]
    inner: ReqId,
}
#[derive(Deserialize, Debug)]
struct FlatOpt {
    #[serde(flatten)]
    inner: OptId,
}
#[derive(Deserialize, Debug)]
#[serde(tag = "__typename")]
enum TagReq {
    A(ReqId),
}
#[derive(Deserialize, Debug)]
#[serde(tag = "__typename")]
enum TagOpt {
    A(OptId),
}

fn id_report(req: &Value) -> Value {
    // `doc` is the text of a JSON object such as {"id": 7} (or {} for "absent").
    let doc = req["doc"].as_str().unwrap_or("{}");
    let which = req["which"].as_str().unwrap_or("req");
    let via = req["via"].as_str().unwrap_or("str");
    fn show<T, E: std::fmt::Display>(r: Result<T, E>, f: impl Fn(T) -> Value) -> Value {
        match r {
            Ok(v) => json!({"status": "ok", "parse": "ok", "value": f(v)}),
            Err(e) => json!({"status": "ok", "parse": "err", "msg": e.to_string()}),
        }
    }
    let as_value = || serde_json::from_str::<Value>(doc).unwrap_or(Value::Null);
    match (which, via) {
        ("req", "str") => show(serde_json::from_str::<ReqId>(doc), |v| json!(v.id)),
        ("req", "value") => show(serde_json::from_value::<ReqId>(as_value()), |v| json!(v.id)),
        ("req", "flatten") => show(serde_json::from_str::<FlatReq>(doc), |v| json!(v.inner.id)),
        ("req", "tagged") => show(serde_json::from_str::<TagReq>(doc), |v| match v { TagReq::A(i) => json!(i.id) }),
        ("opt", "str") => show(serde_json::from_str::<OptId>(doc), |v| json!(v.id)),
        ("opt", "value") => show(serde_json::from_value::<OptId>(as_value()), |v| json!(v.id)),
        ("opt", "flatten") => show(serde_json::from_str::<FlatOpt>(doc), |v| json!(v.inner.id)),
        ("opt", "tagged") => show(serde_json::from_str::<TagOpt>(doc), |v| match v { TagOpt::A(i) => json!(i.id) }),
        _ => json!({"status": "machinery", "msg": "bad id request"}),
    }
}

pub fn dispatch(op: &str, req: &Value) -> Value {
    let body = req["body"].as_str().unwrap_or("");
    match op {
        "env_response" => match req["t"].as_str().unwrap_or("map") {
            "map" => response_report::<Map<String, Value>>(body),
            "gen" => response_report::<env_op::ResponseData>(body),
            t => json!({"status": "machinery", "msg": format!("bad t {t}")}),
        },
        "env_error" => error_report(body),
        "env_id" => id_report(req),
        "env_build_query" => {
            let b = EnvOp::build_query(env_op::Variables);
            json!({"status": "ok", "body": serde_json::to_string(&b).unwrap_or_default()})
        }
        _ => json!({"status": "machinery", "msg": format!("unknown op {op}")}),
    }
}
