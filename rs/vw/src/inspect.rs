//! Reports what a token stream contains (items, fields, types, attributes) as JSON. It decides
//! nothing: the reference models in Python do the judging.
use quote::ToTokens;
use serde_json::{json, Map, Value};

pub fn ty_str(t: &impl ToTokens) -> String {
    t.to_token_stream()
        .to_string()
        .chars()
        .filter(|c| !c.is_whitespace())
        .collect()
}

fn lit_to_json(l: &syn::Lit) -> Value {
    match l {
        syn::Lit::Str(s) => Value::String(s.value()),
        syn::Lit::Bool(b) => Value::Bool(b.value),
        syn::Lit::Int(i) => json!(i.base10_digits()),
        other => Value::String(other.to_token_stream().to_string()),
    }
}

fn attr_to_json(a: &syn::Attribute) -> Value {
    let path = ty_str(a.path());
    let mut kv = Map::new();
    let mut list: Vec<Value> = Vec::new();
    match &a.meta {
        syn::Meta::Path(_) => {}
        syn::Meta::NameValue(nv) => {
            if let syn::Expr::Lit(l) = &nv.value {
                kv.insert("=".into(), lit_to_json(&l.lit));
            } else {
                kv.insert("=".into(), Value::String(nv.value.to_token_stream().to_string()));
            }
        }
        syn::Meta::List(ml) => {
            let parsed = ml.parse_args_with(
                syn::punctuated::Punctuated::<syn::Meta, syn::Token![,]>::parse_terminated,
            );
            match parsed {
                Ok(metas) => {
                    for m in metas {
                        match m {
                            syn::Meta::Path(p) => {
                                list.push(Value::String(ty_str(&p)));
                                kv.insert(ty_str(&p), Value::Bool(true));
                            }
                            syn::Meta::NameValue(nv) => {
                                let v = if let syn::Expr::Lit(l) = &nv.value {
                                    lit_to_json(&l.lit)
                                } else {
                                    Value::String(nv.value.to_token_stream().to_string())
                                };
                                kv.insert(ty_str(&nv.path), v);
                            }
                            syn::Meta::List(l) => {
                                kv.insert(ty_str(&l.path), Value::String(l.tokens.to_string()));
                            }
                        }
                    }
                }
                Err(_) => {
                    kv.insert("?".into(), Value::String(ml.tokens.to_string()));
                }
            }
        }
    }
    json!({"path": path, "kv": kv, "list": list,
           "inner": matches!(a.style, syn::AttrStyle::Inner(_))})
}

fn attrs_to_json(attrs: &[syn::Attribute]) -> Value {
    Value::Array(attrs.iter().map(attr_to_json).collect())
}

fn vis_str(v: &syn::Visibility) -> String {
    match v {
        syn::Visibility::Inherited => String::new(),
        other => ty_str(other),
    }
}

fn fields_to_json(fields: &syn::Fields) -> Value {
    let mut out = Vec::new();
    for (i, f) in fields.iter().enumerate() {
        out.push(json!({
            "name": f.ident.as_ref().map(|i| i.to_string()).unwrap_or_else(|| i.to_string()),
            "ty": ty_str(&f.ty),
            "vis": vis_str(&f.vis),
            "attrs": attrs_to_json(&f.attrs),
        }));
    }
    Value::Array(out)
}

fn item_to_json(item: &syn::Item) -> Value {
    match item {
        syn::Item::Struct(s) => json!({
            "kind": "struct", "name": s.ident.to_string(), "vis": vis_str(&s.vis),
            "attrs": attrs_to_json(&s.attrs), "fields": fields_to_json(&s.fields),
            "unit": matches!(s.fields, syn::Fields::Unit),
        }),
        syn::Item::Enum(e) => json!({
            "kind": "enum", "name": e.ident.to_string(), "vis": vis_str(&e.vis),
            "attrs": attrs_to_json(&e.attrs),
            "variants": e.variants.iter().map(|v| json!({
                "name": v.ident.to_string(), "attrs": attrs_to_json(&v.attrs),
                "fields": fields_to_json(&v.fields),
            })).collect::<Vec<_>>(),
        }),
        syn::Item::Type(t) => json!({
            "kind": "type", "name": t.ident.to_string(), "vis": vis_str(&t.vis),
            "attrs": attrs_to_json(&t.attrs), "ty": ty_str(&t.ty),
        }),
        syn::Item::Const(c) => {
            let value = match &*c.expr {
                syn::Expr::Lit(l) => lit_to_json(&l.lit),
                syn::Expr::Macro(m) => Value::String(m.to_token_stream().to_string()),
                other => Value::String(other.to_token_stream().to_string()),
            };
            json!({"kind": "const", "name": c.ident.to_string(), "vis": vis_str(&c.vis),
                   "ty": ty_str(&c.ty), "value": value,
                   "is_lit": matches!(&*c.expr, syn::Expr::Lit(_))})
        }
        syn::Item::Mod(m) => json!({
            "kind": "mod", "name": m.ident.to_string(), "vis": vis_str(&m.vis),
            "attrs": attrs_to_json(&m.attrs),
            "items": m.content.as_ref().map(|(_, items)| items.iter().map(item_to_json).collect::<Vec<_>>()).unwrap_or_default(),
        }),
        syn::Item::Impl(i) => json!({
            "kind": "impl", "self_ty": ty_str(&i.self_ty),
            "trait": i.trait_.as_ref().map(|(_, p, _)| ty_str(p)),
            "items": i.items.iter().map(|it| match it {
                syn::ImplItem::Fn(f) => json!({"kind": "fn", "name": f.sig.ident.to_string(),
                    "ret": match &f.sig.output { syn::ReturnType::Default => String::new(), syn::ReturnType::Type(_, t) => ty_str(t) },
                    "body": f.block.to_token_stream().to_string()}),
                syn::ImplItem::Type(t) => json!({"kind": "type", "name": t.ident.to_string(), "ty": ty_str(&t.ty)}),
                other => json!({"kind": "other", "tokens": other.to_token_stream().to_string()}),
            }).collect::<Vec<_>>(),
        }),
        syn::Item::Use(u) => json!({"kind": "use", "tree": ty_str(&u.tree), "vis": vis_str(&u.vis)}),
        other => json!({"kind": "other", "tokens": other.to_token_stream().to_string()}),
    }
}

pub fn file_to_json(f: &syn::File) -> Value {
    Value::Array(f.items.iter().map(item_to_json).collect())
}

/// By-value containment edges of every struct / enum / alias in the file: for each item, the list
/// of (member, target ident, how) with how = "value" (directly or through Option), "box" or "vec".
/// Reports only; the finite-size rule is applied by the Python model.
pub fn containment_edges(f: &syn::File) -> Value {
    let mut out = Map::new();
    fn walk_items(items: &[syn::Item], out: &mut Map<String, Value>) {
        for it in items {
            match it {
                syn::Item::Mod(m) => {
                    if let Some((_, items)) = &m.content {
                        walk_items(items, out);
                    }
                }
                syn::Item::Struct(s) => {
                    let mut edges = Vec::new();
                    for (i, f) in s.fields.iter().enumerate() {
                        let name = f.ident.as_ref().map(|i| i.to_string()).unwrap_or_else(|| i.to_string());
                        type_edges(&f.ty, "value", &name, &mut edges);
                    }
                    out.insert(s.ident.to_string(), Value::Array(edges));
                }
                syn::Item::Enum(e) => {
                    let mut edges = Vec::new();
                    for v in &e.variants {
                        for f in v.fields.iter() {
                            type_edges(&f.ty, "value", &v.ident.to_string(), &mut edges);
                        }
                    }
                    out.insert(e.ident.to_string(), Value::Array(edges));
                }
                syn::Item::Type(t) => {
                    let mut edges = Vec::new();
                    type_edges(&t.ty, "value", "=", &mut edges);
                    out.insert(t.ident.to_string(), Value::Array(edges));
                }
                _ => {}
            }
        }
    }
    fn type_edges(t: &syn::Type, how: &str, member: &str, edges: &mut Vec<Value>) {
        if let syn::Type::Path(p) = t {
            if let Some(seg) = p.path.segments.last() {
                let id = seg.ident.to_string();
                let inner: Vec<&syn::Type> = match &seg.arguments {
                    syn::PathArguments::AngleBracketed(a) => a
                        .args
                        .iter()
                        .filter_map(|g| if let syn::GenericArgument::Type(t) = g { Some(t) } else { None })
                        .collect(),
                    _ => Vec::new(),
                };
                match (id.as_str(), inner.len()) {
                    ("Option", 1) => type_edges(inner[0], how, member, edges),
                    ("Vec", 1) => type_edges(inner[0], if how == "value" { "vec" } else { how }, member, edges),
                    ("Box", 1) => type_edges(inner[0], if how == "value" { "box" } else { how }, member, edges),
                    _ => edges.push(json!([member, id, how])),
                }
            }
        }
    }
    walk_items(&f.items, &mut out);
    Value::Object(out)
}
