//! vw — the verification worker. The only place where graphql-client's real code runs for the
//! generator-level checks. Speaks JSON lines on stdin/stdout.
//!
//! Every request is an object with an "op" member; every answer is one line. Before a request is
//! executed the worker prints `BEGIN <id>` on stdout and flushes, so that the orchestrator can tell
//! which case killed the process (stack overflow, abort).
mod envops;
mod inspect;
#[cfg(graphql_client_verif)]
mod sched;

use graphql_client_codegen::{
    deprecation::DeprecationStrategy, generate_module_token_stream,
    generate_module_token_stream_from_string, normalization::Normalization, CodegenMode,
    GraphQLClientCodegenOptions,
};
use serde_json::{json, Value};
use std::io::{BufRead, Write};
use std::path::PathBuf;
use std::sync::Mutex;

static LAST_PANIC: Mutex<Option<String>> = Mutex::new(None);

pub fn build_options(o: &Value) -> Result<GraphQLClientCodegenOptions, String> {
    let mode = match o.get("mode").and_then(Value::as_str).unwrap_or("cli") {
        "cli" => CodegenMode::Cli,
        "derive" => CodegenMode::Derive,
        m => return Err(format!("bad mode {m}")),
    };
    let mut opts = GraphQLClientCodegenOptions::new(mode);
    if let Some(s) = o.get("operation_name").and_then(Value::as_str) {
        opts.set_operation_name(s.to_string());
    }
    if let Some(s) = o.get("struct_name").and_then(Value::as_str) {
        opts.set_struct_name(s.to_string());
    }
    if let Some(s) = o.get("struct_ident").and_then(Value::as_str) {
        opts.set_struct_ident(proc_macro2::Ident::new(s, proc_macro2::Span::call_site()));
    }
    if let Some(s) = o.get("variables_derives").and_then(Value::as_str) {
        opts.set_variables_derives(s.to_string());
    }
    if let Some(s) = o.get("response_derives").and_then(Value::as_str) {
        opts.set_response_derives(s.to_string());
    }
    if let Some(s) = o.get("deprecation").and_then(Value::as_str) {
        opts.set_deprecation_strategy(match s {
            "allow" => DeprecationStrategy::Allow,
            "warn" => DeprecationStrategy::Warn,
            "deny" => DeprecationStrategy::Deny,
            x => return Err(format!("bad deprecation {x}")),
        });
    }
    if let Some(s) = o.get("visibility").and_then(Value::as_str) {
        let vis: syn::Visibility = if s.is_empty() {
            syn::Visibility::Inherited
        } else {
            syn::parse_str(s).map_err(|e| format!("bad visibility {s}: {e}"))?
        };
        opts.set_module_visibility(vis);
    }
    if let Some(s) = o.get("normalization").and_then(Value::as_str) {
        opts.set_normalization(match s {
            "none" => Normalization::None,
            "rust" => Normalization::Rust,
            x => return Err(format!("bad normalization {x}")),
        });
    }
    if let Some(s) = o.get("custom_scalars_module").and_then(Value::as_str) {
        opts.set_custom_scalars_module(
            syn::parse_str(s).map_err(|e| format!("bad scalars module {s}: {e}"))?,
        );
    }
    if let Some(a) = o.get("extern_enums").and_then(Value::as_array) {
        opts.set_extern_enums(
            a.iter()
                .filter_map(Value::as_str)
                .map(str::to_string)
                .collect(),
        );
    }
    if let Some(b) = o.get("other_variant").and_then(Value::as_bool) {
        opts.set_fragments_other_variant(b);
    }
    if let Some(b) = o.get("skip_none").and_then(Value::as_bool) {
        opts.set_skip_serializing_none(b);
    }
    if let Some(s) = o.get("serde_path").and_then(Value::as_str) {
        opts.set_serde_path(syn::parse_str(s).map_err(|e| format!("bad serde path {s}: {e}"))?);
    }
    if let Some(s) = o.get("query_file").and_then(Value::as_str) {
        opts.set_query_file(PathBuf::from(s));
    }
    Ok(opts)
}

/// One generator call through the public API, exactly as the derive macro / CLI make it.
fn op_gen(req: &Value) -> Value {
    let schema_path = PathBuf::from(req["schema_path"].as_str().unwrap_or(""));
    let options = match build_options(req.get("options").unwrap_or(&Value::Null)) {
        Ok(o) => o,
        Err(e) => return json!({"status": "machinery", "msg": e}),
    };
    let res = if let Some(qp) = req.get("query_path").and_then(Value::as_str) {
        generate_module_token_stream(PathBuf::from(qp), &schema_path, options)
    } else {
        let qt = req["query_text"].as_str().unwrap_or("");
        generate_module_token_stream_from_string(qt, &schema_path, options)
    };
    match res {
        Ok(ts) => {
            let mut out = json!({"status": "ok"});
            let want_tokens = req.get("tokens").and_then(Value::as_bool).unwrap_or(true);
            if want_tokens {
                out["tokens"] = Value::String(ts.to_string());
            }
            if req.get("inspect").and_then(Value::as_bool).unwrap_or(false) {
                match syn::parse2::<syn::File>(ts.clone()) {
                    Ok(f) => out["items"] = inspect::file_to_json(&f),
                    Err(e) => out["parse_error"] = Value::String(e.to_string()),
                }
            } else if req.get("parse").and_then(Value::as_bool).unwrap_or(false) {
                if let Err(e) = syn::parse2::<syn::File>(ts.clone()) {
                    out["parse_error"] = Value::String(e.to_string());
                }
            }
            if req.get("edges").and_then(Value::as_bool).unwrap_or(false) {
                match syn::parse2::<syn::File>(ts.clone()) {
                    Ok(f) => out["edges"] = inspect::containment_edges(&f),
                    Err(e) => out["parse_error"] = Value::String(e.to_string()),
                }
            }
            if req.get("digest").and_then(Value::as_bool).unwrap_or(false) {
                out["digest"] = Value::String(format!("{:016x}", fnv(ts.to_string().as_bytes())));
            }
            out
        }
        Err(e) => json!({"status": "err", "msg": e.to_string()}),
    }
}

pub fn fnv(b: &[u8]) -> u64 {
    let mut h: u64 = 0xcbf29ce484222325;
    for x in b {
        h ^= *x as u64;
        h = h.wrapping_mul(0x100000001b3);
    }
    h
}

/// Parse a Rust source text and report its items (used for CLI-written files and rustfmt output).
fn op_inspect_text(req: &Value) -> Value {
    let text = req["text"].as_str().unwrap_or("");
    match syn::parse_file(text) {
        Ok(f) => {
            use quote::ToTokens;
            json!({"status": "ok", "items": inspect::file_to_json(&f), "edges": inspect::containment_edges(&f),
                   "inner_attrs": f.attrs.iter().map(|a| a.to_token_stream().to_string()).collect::<Vec<_>>(),
                   "tokens": f.items.iter().map(|i| i.to_token_stream().to_string()).collect::<Vec<_>>().join(" ")})
        }
        Err(e) => json!({"status": "err", "msg": e.to_string()}),
    }
}

fn dispatch(req: &Value) -> Value {
    match req["op"].as_str().unwrap_or("") {
        "gen" => op_gen(req),
        "inspect_text" => op_inspect_text(req),
        "ping" => json!({"status": "ok"}),
        #[cfg(graphql_client_verif)]
        "cache_state" => sched::cache_state_json(),
        op if op.starts_with("env_") => envops::dispatch(op, req),
        op => json!({"status": "machinery", "msg": format!("unknown op {op}")}),
    }
}

fn serve() {
    let stdin = std::io::stdin();
    let stdout = std::io::stdout();
    for line in stdin.lock().lines() {
        let line = match line {
            Ok(l) => l,
            Err(_) => break,
        };
        if line.trim().is_empty() {
            continue;
        }
        let req: Value = match serde_json::from_str(&line) {
            Ok(v) => v,
            Err(e) => {
                let mut o = stdout.lock();
                let _ = writeln!(o, "{}", json!({"status":"machinery","msg":format!("bad json: {e}")}));
                let _ = o.flush();
                continue;
            }
        };
        let id = req.get("id").cloned().unwrap_or(Value::Null);
        {
            let mut o = stdout.lock();
            let _ = writeln!(o, "BEGIN {}", id);
            let _ = o.flush();
        }
        let r = std::panic::catch_unwind(std::panic::AssertUnwindSafe(|| dispatch(&req)));
        let (mut resp, panicked) = match r {
            Ok(v) => (v, false),
            Err(p) => {
                let hook_msg = LAST_PANIC.lock().ok().and_then(|mut g| g.take());
                let payload = if let Some(s) = p.downcast_ref::<&str>() {
                    Some(s.to_string())
                } else {
                    p.downcast_ref::<String>().cloned()
                };
                (
                    json!({"status": "panic", "msg": payload.or(hook_msg).unwrap_or_default()}),
                    true,
                )
            }
        };
        resp["id"] = id;
        {
            let mut o = stdout.lock();
            let _ = writeln!(o, "{}", resp);
            let _ = o.flush();
        }
        // A panic inside the generator may leave process-wide state (the caches) damaged; unless
        // the request asks to keep going (C08 histories do), retire the process so that one case
        // cannot influence the next.
        let keep = req.get("keep_after_panic").and_then(Value::as_bool).unwrap_or(false);
        if panicked && !keep {
            std::process::exit(0);
        }
    }
}

fn main() {
    std::panic::set_hook(Box::new(|info| {
        let msg = info.to_string();
        if let Ok(mut g) = LAST_PANIC.lock() {
            *g = Some(msg);
        }
    }));
    let args: Vec<String> = std::env::args().collect();
    match args.get(1).map(String::as_str) {
        Some("serve") | None => serve(),
        #[cfg(graphql_client_verif)]
        Some("sched") => sched::main(&args[2..]),
        Some(x) => {
            eprintln!("unknown mode {x}");
            std::process::exit(2);
        }
    }
}
