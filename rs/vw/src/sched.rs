//! Controlled scheduler for C08: real threads, real `std::sync::Mutex` (through hook H1), a baton
//! that lets exactly one registered thread run at a time. Scheduling points are the acquisitions
//! of the cache locks plus thread end. The schedule is decided by a prefix of choices (index into
//! the canonical enabled list: running thread first if still enabled, then ascending ids); choice
//! 0 afterwards. One process explores exactly one schedule.
use graphql_client_codegen::verif::{cache_state, set_sync_hooks, SyncHooks};
use serde_json::{json, Value};
use std::cell::Cell;
use std::sync::{Arc, Condvar, Mutex};

pub fn cache_state_json() -> Value {
    let st = cache_state();
    json!({"status": "ok", "caches": st.iter().map(|(name, poisoned, entries)| json!({
        "name": name, "poisoned": poisoned,
        "entries": entries.iter().map(|(k, d)| json!([k, format!("{:016x}", d)])).collect::<Vec<_>>(),
    })).collect::<Vec<_>>()})
}

thread_local! {
    static TID: Cell<Option<usize>> = const { Cell::new(None) };
}

#[derive(Clone, Copy, PartialEq, Debug)]
enum St {
    Runnable,
    Blocked(usize),
    Finished,
}

struct State {
    status: Vec<St>,
    current: Option<usize>,
    prefix: Vec<usize>,
    step: usize,
    log: Vec<Value>,
    error: Option<String>,
    deadlock: bool,
    lock_points: usize,
    mutex_names: Vec<usize>,
    /// consecutive scheduling points at which the running thread kept the baton although another thread was enabled
    streak: usize,
}

struct Baton {
    st: Mutex<State>,
    cv: Condvar,
}

impl Baton {
    fn mutex_name(st: &mut State, id: usize) -> usize {
        if let Some(p) = st.mutex_names.iter().position(|x| *x == id) {
            p
        } else {
            st.mutex_names.push(id);
            st.mutex_names.len() - 1
        }
    }

    /// Pick the next thread to run. `me` is the thread giving up the baton.
    fn schedule(&self, me: usize, why: &str, mutex: Option<usize>) {
        let mut st = self.st.lock().unwrap_or_else(|p| p.into_inner());
        let mut enabled: Vec<usize> = Vec::new();
        if st.status[me] == St::Runnable {
            enabled.push(me);
        }
        for (i, s) in st.status.iter().enumerate() {
            if i != me && *s == St::Runnable {
                enabled.push(i);
            }
        }
        if enabled.is_empty() {
            if st.status.iter().any(|s| matches!(s, St::Blocked(_))) {
                st.deadlock = true;
                st.error = Some("deadlock: no enabled thread, some blocked".into());
                // wake everybody so that the process can report; blocked threads will spin out
                st.current = None;
                self.cv.notify_all();
                drop(st);
                report_and_exit(self);
            }
            st.current = None;
            self.cv.notify_all();
            return;
        }
        // Fairness (waiting made visible): code that polls or retries under a lock would keep the baton forever under
        // "choice 0 = keep running". After FAIR consecutive points of one thread with others enabled, the canonical
        // order puts that thread LAST - a deterministic function of the history, so prefixes replay exactly - and the
        // switch is logged as a yield, not as a preemption. The unchanged tree never gets near FAIR points per thread.
        const FAIR: usize = 64;
        const HORIZON: usize = 20000;
        let mut fair_yield = false;
        if enabled.len() > 1 && enabled[0] == me && st.streak >= FAIR {
            enabled.rotate_left(1);
            fair_yield = true;
        }
        if st.step > HORIZON {
            st.error = Some(format!("horizon: more than {} scheduling points in one execution (livelock?)", HORIZON));
            drop(st);
            report_and_exit(self);
        }
        let choice = if st.step < st.prefix.len() {
            st.prefix[st.step]
        } else {
            0
        };
        if choice >= enabled.len() {
            st.error = Some(format!(
                "divergence: prefix choice {} out of range (enabled {:?}) at step {}",
                choice, enabled, st.step
            ));
            drop(st);
            report_and_exit(self);
        }
        let chosen = enabled[choice];
        let preempt = st.status[me] == St::Runnable && chosen != me && !fair_yield;
        if chosen == me && enabled.len() > 1 {
            st.streak += 1;
        } else {
            st.streak = 0;
        }
        let mname = mutex.map(|m| Self::mutex_name(&mut st, m));
        let step = st.step;
        st.log.push(json!({"step": step, "at": why, "thread": me, "mutex": mname,
                           "enabled": enabled, "choice": choice, "chosen": chosen, "preempt": preempt, "fair_yield": fair_yield}));
        st.step += 1;
        st.current = Some(chosen);
        self.cv.notify_all();
        if chosen != me && st.status[me] != St::Finished {
            while st.current != Some(me) {
                st = self.cv.wait(st).unwrap_or_else(|p| p.into_inner());
            }
        }
    }

    fn wait_turn(&self, me: usize) {
        let mut st = self.st.lock().unwrap_or_else(|p| p.into_inner());
        while st.current != Some(me) {
            st = self.cv.wait(st).unwrap_or_else(|p| p.into_inner());
        }
    }
}

struct Hooks(Arc<Baton>);

impl SyncHooks for Hooks {
    fn want_lock(&self, id: usize) {
        if let Some(me) = TID.with(|t| t.get()) {
            {
                let mut st = self.0.st.lock().unwrap_or_else(|p| p.into_inner());
                st.lock_points += 1;
            }
            self.0.schedule(me, "want_lock", Some(id));
        }
    }
    fn lock_failed(&self, id: usize) {
        if let Some(me) = TID.with(|t| t.get()) {
            {
                let mut st = self.0.st.lock().unwrap_or_else(|p| p.into_inner());
                st.status[me] = St::Blocked(id);
            }
            self.0.schedule(me, "blocked", Some(id));
        }
    }
    fn acquired(&self, _id: usize) {}
    fn released(&self, id: usize) {
        if TID.with(|t| t.get()).is_some() {
            let mut st = self.0.st.lock().unwrap_or_else(|p| p.into_inner());
            for s in st.status.iter_mut() {
                if *s == St::Blocked(id) {
                    *s = St::Runnable;
                }
            }
        }
    }
}

static RESULTS: Mutex<Vec<Vec<Value>>> = Mutex::new(Vec::new());

fn report_and_exit(b: &Baton) -> ! {
    let st = b.st.lock().unwrap_or_else(|p| p.into_inner());
    let results = RESULTS.lock().unwrap_or_else(|p| p.into_inner());
    let out = json!({"status": if st.error.is_some() { "sched_error" } else { "ok" },
        "error": st.error, "deadlock": st.deadlock, "schedule": st.log,
        "lock_points": st.lock_points, "results": *results,
        "final_cache": cache_state_json()["caches"]});
    println!("{}", out);
    std::process::exit(0);
}

fn outcome(req: &Value) -> Value {
    let r = std::panic::catch_unwind(std::panic::AssertUnwindSafe(|| {
        let mut q = req.clone();
        q["op"] = json!("gen");
        q["tokens"] = json!(false);
        q["digest"] = json!(true);
        super::dispatch(&q)
    }));
    match r {
        Ok(v) => v,
        Err(p) => {
            let msg = if let Some(s) = p.downcast_ref::<&str>() {
                s.to_string()
            } else {
                p.downcast_ref::<String>().cloned().unwrap_or_default()
            };
            json!({"status": "panic", "msg": msg})
        }
    }
}

/// `vw sched '<json>'` with json = {"threads": [[gen-request, ...], ...], "prefix": [..]}
pub fn main(args: &[String]) {
    let spec: Value = serde_json::from_str(args.first().map(String::as_str).unwrap_or("{}"))
        .expect("sched: bad json");
    let threads = spec["threads"].as_array().cloned().unwrap_or_default();
    let prefix: Vec<usize> = spec["prefix"]
        .as_array()
        .map(|a| a.iter().filter_map(|x| x.as_u64().map(|x| x as usize)).collect())
        .unwrap_or_default();
    let n = threads.len();
    let baton = Arc::new(Baton {
        st: Mutex::new(State {
            status: vec![St::Runnable; n],
            current: None,
            prefix,
            step: 0,
            log: Vec::new(),
            error: None,
            deadlock: false,
            lock_points: 0,
            mutex_names: Vec::new(),
            streak: 0,
        }),
        cv: Condvar::new(),
    });
    *RESULTS.lock().unwrap() = vec![Vec::new(); n];
    if spec["free"].as_bool().unwrap_or(false) {
        // Free-running supplement (sampling, labelled as such by the caller): no hooks, the OS schedules.
        let mut handles = Vec::new();
        for (tid, calls) in threads.into_iter().enumerate() {
            handles.push(std::thread::spawn(move || {
                for req in calls.as_array().cloned().unwrap_or_default() {
                    let o = outcome(&req);
                    RESULTS.lock().unwrap_or_else(|p| p.into_inner())[tid].push(o);
                }
            }));
        }
        for h in handles {
            let _ = h.join();
        }
        report_and_exit(&baton);
    }
    set_sync_hooks(Some(Arc::new(Hooks(baton.clone()))));

    let mut handles = Vec::new();
    for (tid, calls) in threads.into_iter().enumerate() {
        let b = baton.clone();
        handles.push(std::thread::spawn(move || {
            TID.with(|t| t.set(Some(tid)));
            b.wait_turn(tid);
            for req in calls.as_array().cloned().unwrap_or_default() {
                let o = outcome(&req);
                RESULTS.lock().unwrap_or_else(|p| p.into_inner())[tid].push(o);
            }
            {
                let mut st = b.st.lock().unwrap_or_else(|p| p.into_inner());
                st.status[tid] = St::Finished;
            }
            b.schedule(tid, "end", None);
        }));
    }
    // The first scheduling decision (which thread starts) is made by a pseudo thread: everybody
    // is enabled, canonical order ascending.
    {
        let mut st = baton.st.lock().unwrap();
        let enabled: Vec<usize> = (0..n).collect();
        let choice = if st.step < st.prefix.len() { st.prefix[st.step] } else { 0 };
        if choice >= enabled.len() {
            st.error = Some(format!("divergence: initial choice {} out of range", choice));
            drop(st);
            report_and_exit(&baton);
        }
        let step = st.step;
        st.log.push(json!({"step": step, "at": "start", "thread": null, "mutex": null,
                           "enabled": enabled, "choice": choice, "chosen": enabled[choice], "preempt": false}));
        st.step += 1;
        st.current = Some(enabled[choice]);
        baton.cv.notify_all();
    }
    for h in handles {
        let _ = h.join();
    }
    set_sync_hooks(None);
    report_and_exit(&baton);
}
